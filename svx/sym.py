"""Symbolic real scalars that live inside numpy object arrays, and the path-exploration engine.

A `Sym` wraps a z3 Real term.  The *unmodified* pandapipes source computes on these through
Python operator overloading.  Comparisons give `SymBool`; `bool(SymBool)` asks the engine, which
forks (replay-based DFS) when both outcomes are feasible.
"""
import math
import numbers
from fractions import Fraction

import numpy as _np
import z3


class PathBudgetExceeded(BaseException):
    pass


class InfeasiblePath(BaseException):
    """Raised when the replayed prefix turns out to be infeasible (cannot normally happen)."""


class Engine:
    def __init__(self):
        self.feas_timeout_ms = 3000
        self.reset_all()

    def reset_all(self):
        self.assumptions = []
        self.decisions = []
        self.pos = 0
        self.path = []
        self.defined = []
        self.pending = []
        self.nforks = 0
        self.nqueries = 0
        self.nunknown = 0
        self.solver_s = 0.0
        self._solver = None
        self._model = None
        self.max_depth = 400
        self.eager = True
        self.policy = None      # ('assume', bool): comparisons are assumed, not forked
        self.assumed = []
        self.witness = None     # concolic mode: env (name -> float) that selects the path
        self.wfuncs = None

    # -- one run -----------------------------------------------------------------------------
    def start_run(self, prefix):
        self.decisions = list(prefix)
        self.pos = 0
        self.path = []
        self.defined = []
        self.assumed = []
        self.policy = None
        self._solver = None
        self._model = None

    def _get_solver(self):
        if self._solver is None:
            s = z3.Solver()
            s.set("timeout", self.feas_timeout_ms)
            for a in self.assumptions:
                s.add(a)
            for p in self.path:
                s.add(p)
            for p in self.assumed:
                s.add(p)
            self._solver = s
        return self._solver

    def _feasible(self, cond):
        """True unless provably infeasible (unknown counts as feasible: over-approximation of the
        path set is sound — obligations on an infeasible path are vacuous, counterexamples need a
        model of the whole path condition)."""
        import time
        # model shortcut
        if self._model is not None:
            try:
                v = self._model.eval(cond, model_completion=True)
                if z3.is_true(v):
                    return True
            except z3.Z3Exception:
                pass
        s = self._get_solver()
        self.nqueries += 1
        t0 = time.time()
        from .discharge import guarded_check
        try:
            s.push()
            s.add(cond)
            r = guarded_check(s, self.feas_timeout_ms)
            if r == 'sat':
                try:
                    self._model = s.model()
                except z3.Z3Exception:
                    self._model = None
            s.pop()
        except z3.Z3Exception:
            # a cancelled / broken incremental solver: rebuilt on the next query; this query counts as unknown (= feasible)
            self._solver = None
            self._model = None
            r = 'unknown'
        self.solver_s += time.time() - t0
        if r == 'unknown':
            self.nunknown += 1
        return r != 'unsat'

    def _take(self, cond, d):
        c = cond if d else z3.Not(cond)
        self.path.append(c)
        if self._solver is not None:
            self._solver.add(c)
            # the cached model may no longer satisfy the path
            if self._model is not None:
                try:
                    if not z3.is_true(self._model.eval(c, model_completion=True)):
                        self._model = None
                except z3.Z3Exception:
                    self._model = None
        return d

    def branch(self, cond):
        cond = z3.simplify(cond)
        if z3.is_true(cond):
            return True
        if z3.is_false(cond):
            return False
        if self.policy is not None and self.witness is None:
            # regime assumption made inside a designated function (e.g. the warning-only test
            # `p < 0` of Junction.extract_results): no fork, the assumed outcome is recorded as a
            # hypothesis of every obligation on this path
            d = self.policy[1]
            c = cond if d else z3.Not(cond)
            self.assumed.append(c)
            if self._solver is not None:
                self._solver.add(c)
                self._model = None
            return d
        if self.witness is not None:
            # concolic mode: the witness valuation picks the side, the condition is recorded
            from .evalterm import evaluate
            d = bool(evaluate(cond, self.witness, self.wfuncs))
            self.decisions.append(d)
            self.pos += 1
            return self._take(cond, d)
        if self.pos < len(self.decisions):
            d = self.decisions[self.pos]
            self.pos += 1
            return self._take(cond, d)
        if len(self.decisions) >= self.max_depth:
            raise PathBudgetExceeded("depth")
        if self.eager:
            t = self._feasible(cond)
            f = self._feasible(z3.Not(cond))
        else:
            t = f = True
        if t and f:
            self.nforks += 1
            self.pending.append(self.decisions[:self.pos] + [False])
            d = True
        elif t:
            d = True
        elif f:
            d = False
        else:
            raise InfeasiblePath()
        self.decisions.append(d)
        self.pos += 1
        return self._take(cond, d)


ENG = Engine()


def rat(x):
    """Exact rational for a Python number.  Decimal literals become the rational of their repr
    (3.71 -> 371/100), see DESIGN 3.1."""
    if isinstance(x, (bool, _np.bool_)):
        return z3.RealVal(int(x))
    if isinstance(x, numbers.Integral):
        return z3.RealVal(int(x))
    if isinstance(x, Fraction):
        return z3.RealVal(str(x))
    if isinstance(x, numbers.Real):
        x = float(x)
        if math.isnan(x) or math.isinf(x):
            raise ValueError("nan/inf in symbolic arithmetic")
        # a double that is the nearest double of a simple fraction (2/3, 1/3, 3.71 ...) denotes
        # that fraction; otherwise the exact decimal of its repr
        f1 = Fraction(x).limit_denominator(10000)
        if float(f1) == x:
            return z3.RealVal(str(f1))
        return z3.RealVal(str(Fraction(repr(x))))
    raise TypeError("cannot lift %r" % type(x))


def _t(x):
    if isinstance(x, Sym):
        return x.t
    return rat(x)


LOG10 = z3.Function('log10', z3.RealSort(), z3.RealSort())
LN = z3.Function('ln', z3.RealSort(), z3.RealSort())
EXP = z3.Function('exp', z3.RealSort(), z3.RealSort())
SQRT = z3.Function('sqrt', z3.RealSort(), z3.RealSort())
POW = z3.Function('pow', z3.RealSort(), z3.RealSort(), z3.RealSort())
UF_NAMES = {'log10', 'ln', 'exp', 'sqrt', 'pow'}


class SymBool:
    __slots__ = ('t',)

    def __init__(self, t):
        self.t = t

    def __bool__(self):
        return ENG.branch(self.t)

    def __invert__(self):
        return SymBool(z3.Not(self.t))

    def _o(self, o):
        return o.t if isinstance(o, SymBool) else z3.BoolVal(bool(o))

    def __and__(self, o):
        return SymBool(z3.And(self.t, self._o(o)))
    __rand__ = __and__

    def __or__(self, o):
        return SymBool(z3.Or(self.t, self._o(o)))
    __ror__ = __or__

    def __abs__(self):
        return self

    def __repr__(self):
        return "<SymBool>"


class Sym:
    __slots__ = ('t',)

    def __init__(self, t):
        self.t = t

    # constant repr: the real code formats debug strings eagerly (DESIGN 3.4)
    def __repr__(self):
        return "<Sym>"
    __str__ = __repr__

    def __format__(self, spec):
        return "<Sym>"

    def __add__(s, o): return Sym(s.t + _t(o))
    def __radd__(s, o): return Sym(_t(o) + s.t)
    def __sub__(s, o): return Sym(s.t - _t(o))
    def __rsub__(s, o): return Sym(_t(o) - s.t)
    def __mul__(s, o): return Sym(s.t * _t(o))
    def __rmul__(s, o): return Sym(_t(o) * s.t)

    def __truediv__(s, o):
        d = _t(o)
        if not z3.is_rational_value(d):
            ENG.defined.append(d != 0)
        return Sym(s.t / d)

    def __rtruediv__(s, o):
        ENG.defined.append(s.t != 0)
        return Sym(_t(o) / s.t)

    def __neg__(s): return Sym(-s.t)
    def __pos__(s): return s
    def __abs__(s): return Sym(z3.If(s.t >= 0, s.t, -s.t))

    def __pow__(s, o):
        if isinstance(o, Sym):
            return Sym(POW(s.t, o.t))
        if isinstance(o, numbers.Integral) or (isinstance(o, numbers.Real) and float(o).is_integer()):
            n = int(o)
            if n == 0:
                return Sym(z3.RealVal(1))
            r = s.t
            for _ in range(abs(n) - 1):
                r = r * s.t
            if n >= 0:
                return Sym(r)
            ENG.defined.append(s.t != 0)
            return Sym(1 / r)
        return Sym(POW(s.t, _t(o)))

    def __rpow__(s, o): return Sym(POW(_t(o), s.t))
    def __lt__(s, o): return SymBool(s.t < _t(o))
    def __le__(s, o): return SymBool(s.t <= _t(o))
    def __gt__(s, o): return SymBool(s.t > _t(o))
    def __ge__(s, o): return SymBool(s.t >= _t(o))
    def __eq__(s, o): return SymBool(s.t == _t(o))
    def __ne__(s, o): return SymBool(s.t != _t(o))
    __hash__ = None

    # numpy object-loop ufunc hooks
    def sqrt(s): return Sym(SQRT(s.t))
    def exp(s): return Sym(EXP(s.t))
    def log(s): return Sym(LN(s.t))
    def log10(s): return Sym(LOG10(s.t))
    def conjugate(s): return s
    def round(s, n=0): return s
    def __round__(s, n=0): return s
    def item(s): return s

    def __float__(s):
        raise TypeError('symbolic value reached a float() boundary')

    def __int__(s):
        raise TypeError('symbolic value reached an int() boundary')
    __index__ = __int__


_CMP = {'__lt__': False, '__le__': False, '__gt__': False, '__ge__': False, '__eq__': False,
        '__ne__': True}


def _guard(f):
    name = f.__name__

    def g(self, o):
        if isinstance(o, _np.ndarray):
            return NotImplemented
        if isinstance(o, (float, _np.floating)) and o != o:
            # IEEE semantics of a concrete NaN operand (NaN-ness is structure)
            return _CMP[name] if name in _CMP else float('nan')
        return f(self, o)
    g.__name__ = f.__name__
    return g


for _n in ['__add__', '__radd__', '__sub__', '__rsub__', '__mul__', '__rmul__', '__truediv__',
           '__rtruediv__', '__pow__', '__rpow__', '__lt__', '__le__', '__gt__', '__ge__', '__eq__',
           '__ne__']:
    setattr(Sym, _n, _guard(getattr(Sym, _n)))


def real(name):
    return Sym(z3.Real(name))


def is_sym(x):
    return isinstance(x, Sym)


def term(x):
    """z3 term for a cell value (Sym, number)."""
    return _t(x)


def has_sym(a):
    if isinstance(a, Sym):
        return True
    if isinstance(a, _np.ndarray) and a.dtype == object:
        return any(isinstance(x, Sym) for x in a.ravel())
    return False


def free_vars(t, acc=None):
    """names of free Real constants in a z3 term"""
    acc = set() if acc is None else acc
    seen = set()
    stack = [t]
    while stack:
        e = stack.pop()
        i = e.get_id()
        if i in seen:
            continue
        seen.add(i)
        if z3.is_const(e) and e.decl().kind() == z3.Z3_OP_UNINTERPRETED:
            acc.add(e.decl().name())
        else:
            stack.extend(e.children())
    return acc
