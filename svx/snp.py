"""numpy proxy installed as `np` inside the pandapipes calculation modules (DESIGN 3.2).

Falls through to real numpy; float-typed constructors return object arrays, element-wise
predicates and min/max understand `Sym` cells.  Integer / boolean arrays are untouched so all
indexing stays native numpy.
"""
import math
import sys
import types

import numpy as _np
import z3

from .sym import Sym, SymBool, ENG, _t


def _is_obj(a):
    return isinstance(a, _np.ndarray) and a.dtype == object


def _fdtype(dtype):
    if dtype is None:
        return object
    try:
        if dtype is object:
            return object
        if _np.issubdtype(_np.dtype(dtype), _np.floating):
            return object
    except TypeError:
        pass
    return dtype


def _isnan1(x):
    if isinstance(x, Sym):
        return False
    if x is None:
        return True
    try:
        return math.isnan(x)
    except TypeError:
        return False


def _ite(c, a, b):
    return Sym(z3.If(c, _t(a), _t(b)))


def _max2(x, y):
    if _isnan1(x) or _isnan1(y):
        return _np.float64("nan")       # numpy: max / min propagate NaN
    if isinstance(x, Sym) or isinstance(y, Sym):
        return _ite(_t(x) >= _t(y), x, y)
    return x if x >= y else y


def _min2(x, y):
    if _isnan1(x) or _isnan1(y):
        return _np.float64("nan")
    if isinstance(x, Sym) or isinstance(y, Sym):
        return _ite(_t(x) <= _t(y), x, y)
    return x if x <= y else y


class _SNP(types.ModuleType):
    float64 = object   # code writes dtype=np.float64

    def __getattr__(self, name):
        return getattr(_np, name)

    # ---- constructors: float arrays become object arrays -----------------------------------
    def empty(self, shape, dtype=None, **kw):
        dt = _fdtype(dtype)
        a = _np.empty(shape, dtype=dt, **kw)
        if dt is object:
            a[...] = 0.0
        return a

    def zeros(self, shape, dtype=None, **kw):
        dt = _fdtype(dtype)
        a = _np.zeros(shape, dtype=dt, **kw)
        if dt is object:
            a[...] = 0.0
        return a

    def ones(self, shape, dtype=None, **kw):
        dt = _fdtype(dtype)
        a = _np.ones(shape, dtype=dt, **kw)
        if dt is object:
            a[...] = 1.0
        return a

    def full(self, shape, fill_value, dtype=None, **kw):
        if dtype is None and not isinstance(fill_value, (int, bool, _np.integer, _np.bool_)):
            dtype = object
        return _np.full(shape, fill_value, dtype=_fdtype(dtype) if dtype is not None else None, **kw)

    def array(self, obj, dtype=None, **kw):
        if dtype is not None:
            dtype = _fdtype(dtype)
        return _np.array(obj, dtype=dtype, **kw)

    def zeros_like(self, a, dtype=None, **kw):
        if dtype is None and (_is_obj(a) or (isinstance(a, _np.ndarray) and a.dtype.kind == 'f')):
            out = _np.empty(_np.shape(a), dtype=object)
            out[...] = 0.0
            return out
        return _np.zeros_like(a, dtype=dtype, **kw)

    def ones_like(self, a, dtype=None, **kw):
        if dtype is None and (_is_obj(a) or (isinstance(a, _np.ndarray) and a.dtype.kind == 'f')):
            out = _np.empty(_np.shape(a), dtype=object)
            out[...] = 1.0
            return out
        return _np.ones_like(a, dtype=dtype, **kw)

    def empty_like(self, a, dtype=None, **kw):
        if dtype is None and (_is_obj(a) or (isinstance(a, _np.ndarray) and a.dtype.kind == 'f')):
            out = _np.empty(_np.shape(a), dtype=object)
            out[...] = 0.0
            return out
        return _np.empty_like(a, dtype=dtype, **kw)

    # ---- predicates ------------------------------------------------------------------------
    def isnan(self, a):
        if _is_obj(a):
            return _np.array([_isnan1(x) for x in a.ravel()], dtype=bool).reshape(a.shape)
        if isinstance(a, Sym):
            return False
        return _np.isnan(a)

    def isfinite(self, a):
        if _is_obj(a):
            return _np.array([True if isinstance(x, Sym) else bool(_np.isfinite(x))
                              for x in a.ravel()], dtype=bool).reshape(a.shape)
        if isinstance(a, Sym):
            return True
        return _np.isfinite(a)

    def nan_to_num(self, a, copy=True, **kw):
        if _is_obj(a):
            out = a.copy() if copy else a
            m = self.isnan(a)
            out[m] = 0.0
            return out
        return _np.nan_to_num(a, copy=copy, **kw)

    def isclose(self, a, b, rtol=1e-05, atol=1e-08, equal_nan=False):
        if _is_obj(a) or _is_obj(b) or isinstance(a, Sym) or isinstance(b, Sym):
            a_, b_ = _np.broadcast_arrays(_np.asarray(a, dtype=object), _np.asarray(b, dtype=object))
            out = _np.empty(a_.shape, dtype=bool)
            for i in _np.ndindex(a_.shape):
                x, y = a_[i], b_[i]
                if isinstance(x, Sym) or isinstance(y, Sym):
                    out[i] = bool(abs(x - y) <= atol + rtol * abs(y))
                elif _isnan1(x) or _isnan1(y):
                    out[i] = bool(equal_nan and _isnan1(x) and _isnan1(y))
                else:
                    out[i] = bool(_np.isclose(float(x), float(y), rtol=rtol, atol=atol))
            return out if out.shape else bool(out[()])
        return _np.isclose(a, b, rtol=rtol, atol=atol, equal_nan=equal_nan)

    # ---- transcendental --------------------------------------------------------------------
    def _unary(self, a, name, mfun):
        def one(x):
            return getattr(x, name)() if isinstance(x, Sym) else mfun(x)
        if _is_obj(a):
            out = _np.empty(a.shape, dtype=object)
            for i, v in _np.ndenumerate(a):
                out[i] = one(v)
            return out
        if isinstance(a, Sym):
            return one(a)
        return getattr(_np, name)(a)

    def log10(self, a): return self._unary(a, 'log10', math.log10)
    def log(self, a): return self._unary(a, 'log', math.log)
    def exp(self, a): return self._unary(a, 'exp', math.exp)
    def sqrt(self, a): return self._unary(a, 'sqrt', math.sqrt)

    def power(self, a, b):
        if _is_obj(a) or _is_obj(b) or isinstance(a, Sym) or isinstance(b, Sym):
            return a ** b
        return _np.power(a, b)

    # ---- min / max without forks -----------------------------------------------------------
    def _reduce(self, a, f2):
        it = list(a.ravel())
        r = it[0]
        for v in it[1:]:
            r = f2(r, v)
        return r

    def max(self, a, *args, **kw):
        if _is_obj(a) and not args and not kw and a.size:
            r = self._reduce(a, _max2)
            return r if isinstance(r, Sym) else _np.float64(r)
        return _np.max(a, *args, **kw)
    amax = max

    def nanmax(self, a, *args, **kw):
        if _is_obj(a) and not args and not kw and a.size:
            vals = [v for v in a.ravel() if not _isnan1(v)]
            if not vals:
                return _np.float64("nan")
            return self._reduce(_np.array(vals, dtype=object), _max2)
        return _np.nanmax(a, *args, **kw)

    def min(self, a, *args, **kw):
        if _is_obj(a) and not args and not kw and a.size:
            return self._reduce(a, _min2)
        return _np.min(a, *args, **kw)
    amin = min

    def _binary(self, a, b, f2, real):
        if _is_obj(a) or _is_obj(b) or isinstance(a, Sym) or isinstance(b, Sym):
            a_, b_ = _np.broadcast_arrays(_np.asarray(a, dtype=object), _np.asarray(b, dtype=object))
            out = _np.empty(a_.shape, dtype=object)
            for i in _np.ndindex(a_.shape):
                out[i] = f2(a_[i], b_[i])
            return out if out.shape else out[()]
        return real(a, b)

    def maximum(self, a, b): return self._binary(a, b, _max2, _np.maximum)
    def minimum(self, a, b): return self._binary(a, b, _min2, _np.minimum)

    def sign(self, a):
        def one(x):
            if isinstance(x, Sym):
                return Sym(z3.If(x.t > 0, z3.RealVal(1), z3.If(x.t < 0, z3.RealVal(-1), z3.RealVal(0))))
            return _np.sign(x)
        if _is_obj(a):
            out = _np.empty(a.shape, dtype=object)
            for i, v in _np.ndenumerate(a):
                out[i] = one(v)
            return out
        if isinstance(a, Sym):
            return one(a)
        return _np.sign(a)


snp = _SNP('snp')

#: modules of pandapipes that compute on numeric data (structure-level modules keep real numpy)
CALC_PREFIXES = (
    'pandapipes.pf.', 'pandapipes.pipeflow', 'pandapipes.component_models',
    'pandapipes.properties.', 'pandapipes.std_types.std_type_class',
)


_IMPORTED = False


def import_all():
    """import every pandapipes submodule (function-level lazy imports must be covered before
    rebinding); done once, in the parent process before forking workers"""
    global _IMPORTED
    if _IMPORTED:
        return
    import importlib
    import pkgutil
    import pandapipes
    for m in pkgutil.walk_packages(pandapipes.__path__, 'pandapipes.'):
        n = m.name
        if '.test' in n or '.converter' in n or '.plotting' in n or '.networks' in n:
            continue
        try:
            importlib.import_module(n)
        except Exception:   # optional deps
            pass
    _IMPORTED = True


def install(extra_prefixes=()):
    """Rebind `np` in the calculation modules; returns the list of patched module names."""
    import_all()
    done = []
    for name, mod in list(sys.modules.items()):
        if mod is None or not name.startswith('pandapipes'):
            continue
        if not (name + '.').startswith(tuple(CALC_PREFIXES) + tuple(extra_prefixes)) and \
                not name.startswith(tuple(CALC_PREFIXES) + tuple(extra_prefixes)):
            continue
        if getattr(mod, 'np', None) is _np:
            mod.np = snp
            done.append(name)
    return done


def uninstall():
    for name, mod in list(sys.modules.items()):
        if mod is not None and name.startswith('pandapipes') and getattr(mod, 'np', None) is snp:
            mod.np = _np
