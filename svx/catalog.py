"""Named structure specs shared by the checks (see nets.py for the format)."""
import copy
import itertools
import random


def E(t, **kw):
    d = {"t": t}
    d.update(kw)
    return d


def w_line3():
    return {"name": "w_line3", "fluid": "water", "nj": 3, "jh": [0, 5, 2], "elems": [
        E("ext_grid", j=0), E("pipe", f=0, to=1, sections=2), E("pipe", f=1, to=2),
        E("sink", j=2), E("sink", j=2), E("sink", j=1), E("source", j=1)]}


def w_mesh4():
    return {"name": "w_mesh4", "fluid": "water", "nj": 4, "jh": [0, 1, 2, 3], "elems": [
        E("ext_grid", j=0), E("ext_grid", j=0), E("ext_grid", j=2, type="p"),
        E("pipe", f=0, to=1), E("pipe", f=0, to=1), E("pipe", f=1, to=2), E("pipe", f=3, to=2, sections=2),
        E("pipe", f=0, to=3), E("pipe", f=1, to=3),
        E("sink", j=3), E("mass_storage", j=1), E("source", j=2)]}


def w_components():
    """pump, valve, heat exchanger, flow control, pressure control in one net"""
    return {"name": "w_components", "fluid": "water", "nj": 6, "jh": [0, 0, 1, 1, 2, 2], "elems": [
        E("ext_grid", j=0), E("pump", f=0, to=1), E("valve", j=1, el=2, et="ju"),
        E("heat_exchanger", f=2, to=3), E("flow_control", f=3, to=4), E("pipe", f=1, to=3),
        E("press_control", f=4, to=5, cj=5), E("pipe", f=2, to=4),
        E("sink", j=5), E("sink", j=3), E("source", j=2)]}


def relabelled(spec, labels, order=None, suffix="_labels"):
    """same structure with junction labels that are not table positions (and optionally another creation order)"""
    import copy
    s = copy.deepcopy(spec)
    s["name"] = spec["name"] + suffix
    s["jl"] = list(labels)
    if order:
        s["jorder"] = list(order)
    return s


def w_fc_off():
    return {"name": "w_fc_off", "fluid": "water", "nj": 4, "elems": [
        E("ext_grid", j=0), E("pipe", f=0, to=1), E("flow_control", f=1, to=2, control_active=False),
        E("press_control", f=2, to=3, control_active=False), E("sink", j=3), E("sink", j=2)]}


def w_oos():
    """out-of-service pieces and an unsupplied island"""
    return {"name": "w_oos", "fluid": "water", "nj": 5, "jis": [True, True, False, True, True], "elems": [
        E("ext_grid", j=0), E("ext_grid", j=0, in_service=False), E("pipe", f=0, to=1),
        E("pipe", f=1, to=2), E("pipe", f=1, to=3, in_service=False), E("pipe", f=3, to=4),
        E("valve", j=1, el=4, et="ju", opened=False), E("valve", j=0, el=1, et="ju"),
        E("sink", j=1), E("sink", j=4), E("sink", j=2), E("sink", j=1, in_service=False)]}


def w_shuffled():
    s = w_line3()
    s["name"] = "w_line3_labels"
    s["jl"] = [7, 3, 100000]
    s["jorder"] = [2, 0, 1]
    for k, e in enumerate(s["elems"]):
        if e["t"] == "pipe":
            e["index"] = [5, 2][k - 1]
        if e["t"] == "sink":
            e["index"] = {3: 9, 4: 4, 5: 0}[k]
    return s


def w_circ_loop():
    """district-heating loop: circulation pump (pressure), two consumers, flow control"""
    return {"name": "w_circ_loop", "fluid": "water", "nj": 4, "elems": [
        E("circ_pump_pressure", ret=3, flow=0), E("pipe", f=0, to=1, u=5.0), E("pipe", f=2, to=3, u=5.0),
        E("heat_consumer", f=1, to=2, mdot=1.0, qext_w=20000.0),
        E("heat_consumer", f=1, to=2, mdot=0.5, qext_w=10000.0)]}


def w_circ_mass():
    return {"name": "w_circ_mass", "fluid": "water", "nj": 4, "elems": [
        E("circ_pump_mass", ret=3, flow=0), E("pipe", f=0, to=1, u=5.0, sections=2), E("pipe", f=2, to=3, u=5.0),
        E("heat_exchanger", f=1, to=2), E("valve", j=1, el=2, et="ju"), E("ext_grid", j=0, type="p"),
        E("sink", j=2)]}


def w_heat_line():
    """district-heating line, three pipes with different numbers of sections (heat modes)"""
    return {"name": "w_heat_line", "fluid": "water", "nj": 4, "elems": [
        E("ext_grid", j=0, type="pt"), E("pipe", f=0, to=1, u=5.0, sections=3), E("pipe", f=1, to=2, u=5.0, sections=2),
        E("pipe", f=2, to=3, u=5.0), E("sink", j=3)]}


def w_heat_line_rev():
    """heat line, different numbers of sections, the middle pipe (most sections) entered against the flow"""
    return {"name": "w_heat_line_rev", "fluid": "water", "nj": 4, "elems": [
        E("ext_grid", j=0, type="pt"), E("pipe", f=0, to=1, u=5.0), E("pipe", f=2, to=1, u=5.0, sections=4),
        E("pipe", f=2, to=3, u=5.0, sections=2), E("sink", j=3)]}


def w_heat_reversed():
    """heat line with pipes entered against the flow, parallel pair with one member reversed"""
    return {"name": "w_heat_reversed", "fluid": "water", "nj": 4, "elems": [
        E("ext_grid", j=0, type="pt"), E("pipe", f=1, to=0, u=5.0, sections=2), E("pipe", f=1, to=2, u=5.0),
        E("pipe", f=2, to=1, u=8.0, length_km=0.7), E("pipe", f=3, to=2, u=5.0), E("sink", j=3), E("sink", j=1)]}


def w_nan_loads():
    """loads with mdot_kg_per_s = NaN ("no flow known")"""
    return {"name": "w_nan_loads", "fluid": "water", "nj": 3, "elems": [
        E("ext_grid", j=0), E("pipe", f=0, to=1), E("pipe", f=1, to=2), E("sink", j=2), E("sink", j=1, mdot=float("nan")),
        E("source", j=1, mdot=float("nan")), E("source", j=2, mdot=0.1), E("mass_storage", j=1, mdot=float("nan"))]}


def g_line3():
    return {"name": "g_line3", "fluid": "gas", "nj": 3, "jh": [0, 10, 4], "elems": [
        E("ext_grid", j=0), E("pipe", f=0, to=1, sections=2), E("pipe", f=1, to=2),
        E("sink", j=2), E("sink", j=1), E("source", j=1)]}


def g_components():
    return {"name": "g_components", "fluid": "gas", "nj": 5, "elems": [
        E("ext_grid", j=0), E("compressor", f=0, to=1), E("pipe", f=1, to=2), E("valve", j=2, el=3, et="ju"),
        E("pipe", f=1, to=3), E("flow_control", f=3, to=4), E("sink", j=4), E("sink", j=2),
        E("mass_storage", j=3)]}


def g_mesh():
    return {"name": "g_mesh", "fluid": "gas", "nj": 4, "elems": [
        E("ext_grid", j=0), E("ext_grid", j=3, type="p"), E("pipe", f=0, to=1), E("pipe", f=1, to=2),
        E("pipe", f=2, to=0), E("pipe", f=2, to=3), E("pipe", f=1, to=3), E("sink", j=2), E("source", j=1)]}


def w_pi_valve():
    """valve attached to a pipe (et='pi')"""
    return {"name": "w_pi_valve", "fluid": "water", "nj": 3, "elems": [
        E("ext_grid", j=0), E("pipe", f=0, to=1, index=4), E("pipe", f=1, to=2, index=1),
        E("valve", j=1, el=1, et="pi"), E("sink", j=2), E("sink", j=1)]}


CORE = [w_line3, w_mesh4, w_components, w_fc_off, w_oos, w_shuffled, w_circ_loop, w_circ_mass,
        g_line3, g_components, g_mesh]


def w_three_pi():
    """three junction-pipe valves at distinct junctions (their internal nodes are ordered by (junction, pipe) label)"""
    return {"name": "w_three_pi", "fluid": "water", "nj": 4, "elems": [
        E("ext_grid", j=0), E("pipe", f=0, to=1, index=0), E("pipe", f=0, to=2, index=1, length_km=0.7), E("pipe", f=0, to=3, index=2, d_mm=80.0),
        E("valve", j=1, el=0, et="pi", index=0), E("valve", j=2, el=1, et="pi", index=1, zeta=0.9), E("valve", j=3, el=2, et="pi", index=2),
        E("sink", j=1, mdot=0.4), E("sink", j=2, mdot=0.7), E("sink", j=3, mdot=0.2)]}


def w_pump_standby():
    """pumps of different types, one of them out of service (row order decides which curve meets which pump if the
    type lookup is done by position among the active pumps)"""
    return {"name": "w_pump_standby", "fluid": "water", "nj": 4, "elems": [
        E("ext_grid", j=0), E("pump", f=0, to=1, std_type="P1", in_service=False), E("pump", f=0, to=1, std_type="P2"),
        E("pump", f=2, to=3, std_type="P3"), E("pipe", f=1, to=2), E("sink", j=3), E("sink", j=2)]}


def core_specs():
    return [f() for f in CORE]


# ---- generated structures ------------------------------------------------------------------------
BRANCH_TYPES_W = ["pipe", "pipe2", "valve", "pump", "heat_exchanger", "flow_control"]
BRANCH_TYPES_G = ["pipe", "pipe2", "valve", "compressor", "flow_control"]


def _branch(bt, f, to):
    if bt == "pipe":
        return E("pipe", f=f, to=to)
    if bt == "pipe2":
        return E("pipe", f=f, to=to, sections=2)
    if bt == "valve":
        return E("valve", j=f, el=to, et="ju")
    return E(bt, f=f, to=to)


def random_spec(rng, fluid=None, nj=None, name=None):
    """connected multigraph on nj<=4 junctions, random component assignment, loads and flags"""
    fluid = fluid or rng.choice(["water", "gas"])
    nj = nj or rng.choice([2, 3, 4])
    bts = BRANCH_TYPES_W if fluid == "water" else BRANCH_TYPES_G
    elems = []
    # spanning tree
    for j in range(1, nj):
        p = rng.randrange(0, j)
        f, to = (p, j) if rng.random() < 0.7 else (j, p)
        bt = rng.choice(bts)
        if bt in ("flow_control",) and any(e["t"] == "flow_control" for e in elems):
            bt = "pipe"
        elems.append(_branch(bt, f, to))
    for _ in range(rng.choice([0, 1, 2])):
        f, to = rng.sample(range(nj), 2) if nj > 1 else (0, 0)
        elems.append(_branch(rng.choice(["pipe", "pipe2", "valve"]), f, to))
    neg = rng.sample(range(nj), rng.choice([1, 1, 2]) if nj > 1 else 1)
    for j in neg:
        elems.append(E("ext_grid", j=j, type=rng.choice(["pt", "p"])))
    for j in range(nj):
        for _ in range(rng.choice([0, 1, 1, 2])):
            elems.append(E(rng.choice(["sink", "sink", "source", "mass_storage"]), j=j,
                           in_service=rng.random() < 0.85))
    spec = {"name": name or "rand", "fluid": fluid, "nj": nj, "elems": elems,
            "jh": [rng.choice([0, 0, 3, 10]) for _ in range(nj)]}
    if rng.random() < 0.4:
        labels = rng.sample([0, 1, 2, 3, 7, 42, 99999, 100000, 250000], nj)
        spec["jl"] = labels
        order = list(range(nj))
        rng.shuffle(order)
        spec["jorder"] = order
    return spec


def random_heat_spec(rng, name=None):
    """district-heating style tree fed at junction 0 (temperature-fixing ext grid), random pipe orientation, sections,
    heat-transfer coefficients, optionally one heat exchanger in a branch and one extra pipe closing a loop; sinks at
    the leaves so that every branch carries flow"""
    nj = rng.choice([3, 4, 5])
    elems = [E("ext_grid", j=0, type="pt")]
    children = {j: [] for j in range(nj)}
    for j in range(1, nj):
        p = rng.randrange(0, j)
        children[p].append(j)
        f, to = (p, j) if rng.random() < 0.6 else (j, p)
        if rng.random() < 0.2 and not any(e["t"] == "heat_exchanger" for e in elems):
            elems.append(E("heat_exchanger", f=f, to=to, qext_w=rng.choice([4000.0, -2500.0])))
        else:
            elems.append(E("pipe", f=f, to=to, u=rng.choice([3.0, 5.0, 8.0]), sections=rng.choice([1, 1, 2, 3]),
                           length_km=rng.choice([0.3, 0.5, 0.8])))
    if nj >= 4 and rng.random() < 0.5:
        a, b = rng.sample(range(1, nj), 2)
        elems.append(E("pipe", f=a, to=b, u=4.0, length_km=0.6))
    leaves = [j for j in range(1, nj) if not children[j]]
    for j in leaves:
        elems.append(E("sink", j=j, mdot=rng.choice([0.3, 0.5, 0.8])))
    if rng.random() < 0.4:
        inner = [j for j in range(1, nj) if children[j]]
        if inner:
            elems.append(E("sink", j=rng.choice(inner), mdot=0.2))
    return {"name": name or "rand_heat", "fluid": "water", "nj": nj, "elems": elems}


def random_loop_spec(rng, name=None):
    """circulation-pump loop with 1-3 parallel consumers of random specification modes, optionally a heat exchanger
    (random orientation) and a flow controller in a further parallel branch"""
    modes = ["qe_mf", "mf_dt", "mf_tr", "qe_dt", "qe_tr"]
    elems = [E("circ_pump_pressure", ret=3, flow=0), E("pipe", f=0, to=1, u=rng.choice([3.0, 5.0])),
             E("pipe", f=2, to=3, u=rng.choice([3.0, 5.0]), sections=rng.choice([1, 2]))]
    n = rng.choice([1, 2, 3])
    chosen = [rng.choice(modes) for _ in range(n)]
    if not any(m in ("qe_mf", "mf_dt", "mf_tr") for m in chosen):
        chosen[0] = "qe_mf"
    for m in chosen:
        kw = {"qe_mf": dict(mdot=rng.choice([0.5, 1.0]), qext_w=rng.choice([8000.0, 20000.0, -3000.0])),
              "mf_dt": dict(mdot=rng.choice([0.5, 1.0]), deltat_k=rng.choice([10.0, 20.0])),
              "mf_tr": dict(mdot=rng.choice([0.5, 1.0]), treturn_k=rng.choice([285.0, 300.0])),
              "qe_dt": dict(qext_w=rng.choice([8000.0, 20000.0]), deltat_k=rng.choice([10.0, 20.0])),
              "qe_tr": dict(qext_w=rng.choice([8000.0, 20000.0]), treturn_k=rng.choice([285.0, 300.0]))}[m]
        elems.append(E("heat_consumer", f=1, to=2, **kw))
    if rng.random() < 0.4:
        f, to = (1, 2) if rng.random() < 0.5 else (2, 1)
        elems.append(E("heat_exchanger", f=f, to=to, qext_w=rng.choice([5000.0, 9000.0])))
    return {"name": name or "rand_loop", "fluid": "water", "nj": 4, "elems": elems}
