"""Environment stubs (DESIGN 3.4).  Everything is installed from the harness side by rebinding
module globals of the *imported working-tree modules*; nothing in /repo is edited."""
import builtins
import importlib
import logging
import sys

import numpy as _np
import z3

from .sym import Sym, ENG, _t, real, rat
from . import snp as _snpmod
from .snp import snp

STUB_LIST = [
    "scipy.sparse.linalg.spsolve -> any x with J x = b (post-step) / b = 0, x = 0 (fixed point)",
    "scipy.sparse.csr_matrix -> COO triple recorder, duplicates summed",
    "scipy.sparse.coo_matrix (connectivity) -> real scipy, all-ones data cast to float",
    "fluid properties -> uninterpreted functions of their arguments (+ positivity), "
    "compressibility = real FluidPropertyLinear with symbolic slope/offset",
    "p_correction_height_air(h) -> uninterpreted pamb(h) > 0 for symbolic h",
    "sqrt/exp/ln/log10/pow -> uninterpreted (+ axioms listed per check)",
    "logging/warnings -> disabled; Sym repr constant",
]


class Ctx:
    """per-run capture"""
    def __init__(self):
        self.reset()
        self.spsolve_mode = 'free'    # 'free' | 'fixed_point'
        self.havoc = True
        self.single_iteration = True
        self.force_verdict = True

    def reset(self):
        self.systems = []      # dicts: A(entries, shape), b, x, heat(bool)
        self.facts = []        # z3 Bools true on this run (axioms, cut defs)
        self.lin = []          # z3 Bools of the linear-system contract(s)
        self.cuts = {}         # name -> defining term
        self.nfresh = 0
        self.havoc_map = {}    # description of havoc symbols
        self.stage = 0
        self.last_names = None
        self.sys_base = 0
        self.cur_net = None
        self.cur_heat = False


CTX = Ctx()


def fresh(prefix):
    CTX.nfresh += 1
    return z3.Real("%s!%d" % (prefix, CTX.nfresh))


def fact(c):
    CTX.facts.append(c)
    if ENG._solver is not None:
        ENG._solver.add(c)


def cut(value, name):
    """replace a term by a named variable + defining equation"""
    if not isinstance(value, Sym):
        return value
    v = z3.Real(name)
    CTX.cuts[name] = value.t
    fact(v == value.t)
    return Sym(v)


# ------------------------------------------------------------------------------------------------
class SymMatrix:
    """stand-in for scipy.sparse.csr_matrix((data,(rows,cols)), shape) and the
    (data, indices, indptr) form used by the update path"""

    def __init__(self, arg, shape=None):
        self.shape = shape
        if len(arg) == 2:
            data, (rows, cols) = arg
            self._rows = _np.asarray(rows).astype(int)
            self._cols = _np.asarray(cols).astype(int)
            self.data = _np.asarray(data, dtype=object)
        else:
            data, indices, indptr = arg
            # scipy (copy=False): index arrays that already have the index dtype (int32 at these sizes) are *shared* with
            # the caller, others are converted (copied); in-place operations of the matrix write through the shared ones
            self._alias = [a if (isinstance(a, _np.ndarray) and a.dtype == _np.int32) else None for a in (indices, indptr)]
            indptr = _np.asarray(indptr).astype(int)
            rows = _np.repeat(_np.arange(len(indptr) - 1), _np.diff(indptr))
            self._rows = rows.astype(int)
            self._cols = _np.asarray(indices).astype(int)
            self.data = _np.asarray(data, dtype=object)

    def sum_duplicates(self):
        """scipy (called by spsolve on its argument, *in place*): entries stored twice for one position are merged, so the
        data array of the matrix object becomes shorter"""
        pos, order = {}, []
        for i, (r, c) in enumerate(zip(self._rows, self._cols)):
            k = (int(r), int(c))
            if k in pos:
                pos[k].append(i)
            else:
                pos[k] = [i]
                order.append(k)
        if len(order) == len(self._rows):
            return
        order.sort()
        data = _np.empty(len(order), dtype=object)
        for n_, k in enumerate(order):
            v = self.data[pos[k][0]]
            for i in pos[k][1:]:
                v = v + self.data[i]
            data[n_] = v
        self._rows = _np.array([k[0] for k in order], dtype=int)
        self._cols = _np.array([k[1] for k in order], dtype=int)
        self.data = data
        # scipy's csr_sum_duplicates compacts the stored arrays in place before they are trimmed: arrays shared with the
        # caller (see __init__) keep the compacted content
        ali, alp = getattr(self, "_alias", [None, None])
        if ali is not None:
            ali[:len(self._cols)] = self._cols
        if alp is not None and self.shape is not None:
            cnt = _np.bincount(self._rows, minlength=self.shape[0])
            alp[1:] = _np.cumsum(cnt)
        self._alias = [None, None]

    def eliminate_zeros(self):
        """scipy: stored entries that are exactly zero are removed (structure and data shrink together)"""
        keep = _np.array([not (not isinstance(d, Sym) and d == 0) for d in self.data], dtype=bool)
        self._rows, self._cols = self._rows[keep], self._cols[keep]
        self.data = _np.asarray(self.data, dtype=object)[keep]

    @property
    def entries(self):
        if len(self.data) != len(self._rows):
            # scipy: a data array that does not fit the stored structure makes the matrix unusable
            raise ValueError("SymMatrix: %d data values for %d stored positions" % (len(self.data), len(self._rows)))
        e = {}
        for d, r, c in zip(self.data, self._rows, self._cols):
            k = (int(r), int(c))
            e[k] = (e[k] + d) if k in e else d
        return e

    def row(self, r):
        return {c: v for (rr, c), v in self.entries.items() if rr == r}


def _is_zero(v):
    if isinstance(v, Sym):
        s = z3.simplify(v.t)
        return z3.is_rational_value(s) and s.as_fraction() == 0
    return v == 0


def sym_spsolve(A, b):
    n = A.shape[0]
    A.sum_duplicates()        # as scipy's spsolve does, in place
    ent = A.entries
    k = len(CTX.systems)
    rec = {"A": A, "entries": ent, "b": _np.array(b, dtype=object), "n": n, "k": k}
    if getattr(CTX, "last_names", None) is not None:
        rec["node_names"], rec["branch_names"] = list(CTX.last_names[0]), list(CTX.last_names[1])
        rec["heat"] = bool(getattr(CTX, "cur_heat", False))
        rec["mode"] = "heat" if rec["heat"] else "hydraulics"
    if CTX.spsolve_mode == 'fixed_point':
        rec["x"] = None
        rec["cons"] = [_t(v) == 0 for v in b]
        CTX.systems.append(rec)
        for c in rec["cons"]:
            CTX.lin.append(c)
            if ENG._solver is not None:
                ENG._solver.add(c)
        out = _np.empty(n, dtype=object)
        out[...] = 0.0
        return out
    xn = _x_names(n, k)
    rec["xnames"] = xn
    x = _np.array([Sym(z3.Real(nm)) for nm in xn], dtype=object)
    xf = getattr(CTX, "x_xform", None)
    if xf is not None:
        # a run that describes the same state in other coordinates (reversed branch, shifted
        # pressures) receives the same update in its own coordinates
        x = _np.array([xf(nm, v) for nm, v in zip(xn, x)], dtype=object)
        rec["x_is_mapped"] = True
    cons = []
    rows = {}
    for (r, c), v in ent.items():
        rows.setdefault(r, []).append((c, v))
    for r in range(n):
        lhs = z3.RealVal(0)
        for c, v in rows.get(r, []):
            if _is_zero(v):
                continue
            lhs = lhs + _t(v) * x[c].t
        cons.append(lhs == _t(b[r]))
    rec["x"] = x
    rec["cons"] = cons
    if ENG.witness is not None and not all(dict.__contains__(ENG.witness, nm) for nm in xn):
        _witness_solve(ent, b, n, k, xn)
    CTX.systems.append(rec)
    for c in cons:
        CTX.lin.append(c)
        if ENG._solver is not None:
            ENG._solver.add(c)
    return x


def _x_names(n, k):
    """names of the update unknowns by element identity (shared between runs that are compared):
    dx<k>[p|junction:3:0], dx<k>[m|pipe:0:1], dx<k>[msl|junction:0:0]"""
    tag = getattr(CTX, "xtag", "")
    names = getattr(CTX, "last_names", None)
    net = getattr(CTX, "cur_net", None)
    if names is None or net is None:
        return ['x%s%d_%d' % (tag, k, i) for i in range(n)]
    nn, bn = names
    heat = getattr(CTX, "cur_heat", False)
    # stage-relative name: dxh<i> for the i-th hydraulic system of this pipeflow call, dxt<i> thermal
    base = getattr(CTX, "sys_base", 0)
    i = sum(1 for s_ in CTX.systems[base:] if bool(s_.get("heat")) == bool(heat))
    pre = "dx%s%s%d" % ("t" if heat else "h", tag, i)
    out = []
    if n == len(nn) + len(bn) and heat:
        out = ["%s[T|%s]" % (pre, a) for a in nn] + ["%s[Tout|%s]" % (pre, a) for a in bn]
    elif n >= len(nn) + len(bn):
        out = ["%s[p|%s]" % (pre, a) for a in nn] + ["%s[m|%s]" % (pre, a) for a in bn]
        try:
            from pandapipes.idx_node import NODE_TYPE, P
            npit = net["_active_pit"]["node"]
            sl = [j for j in range(len(npit)) if npit[j, NODE_TYPE] == P]
        except Exception:
            sl = []
        if len(sl) == n - len(out):
            out += ["%s[msl|%s]" % (pre, nn[j]) for j in sl]
        else:
            out += ["%s[msl|#%d]" % (pre, j) for j in range(n - len(out))]
    else:
        out = ['x%s%d_%d' % (tag, k, j) for j in range(n)]
    return out


def _witness_solve(ent, b, n, k, xn):
    """concolic mode: give the x symbols the values of the numeric solve at the witness"""
    from .evalterm import evaluate
    A = _np.zeros((n, n))
    for (r, c), v in ent.items():
        A[r, c] = evaluate(_t(v), ENG.witness, ENG.wfuncs)
    bb = _np.array([evaluate(_t(v), ENG.witness, ENG.wfuncs) for v in b], dtype=float)
    try:
        if _np.linalg.cond(A) > 1e11:
            raise _np.linalg.LinAlgError("ill-conditioned")
        xv = _np.linalg.solve(A, bb)
    except _np.linalg.LinAlgError:
        xv = _np.linalg.lstsq(A, bb, rcond=None)[0]
        ENG.witness["__singular__"] = 1.0
    for i in range(n):
        ENG.witness[xn[i]] = float(xv[i])


def coo_wrap(arg, shape=None, **kw):
    from scipy.sparse import coo_matrix as _coo
    if isinstance(arg, tuple) and len(arg) == 2 and isinstance(arg[1], tuple):
        data, ij = arg
        return _coo((_np.asarray(data).astype(float), ij), shape=shape, **kw)
    return _coo(arg, shape=shape, **kw)


# ------------------------------------------------------------------------------------------------
PAMBF = z3.Function('pamb', z3.RealSort(), z3.RealSort())
_REAL_PCORR = None


def sym_p_correction_height_air(height):
    def one(h):
        if isinstance(h, Sym):
            t = PAMBF(h.t)
            fact(t > 0)
            return Sym(t)
        return _REAL_PCORR(_np.float64(h)) if _REAL_PCORR else h
    if isinstance(height, _np.ndarray):
        if height.dtype == object:
            out = _np.empty(height.shape, dtype=object)
            for i, v in _np.ndenumerate(height):
                r = one(v)
                out[i] = r if isinstance(r, Sym) else float(r)
            return out
        return _REAL_PCORR(height)
    return one(height)


# ------------------------------------------------------------------------------------------------
def make_sym_property_class():
    from pandapipes.properties.fluids import FluidProperty

    class SymProp(FluidProperty):
        """fluid property as an uninterpreted function of its arguments"""
        def __init__(self, name, positive=True, allow_2d=False, const=False):
            super().__init__()
            self.pname = name
            self.positive = positive
            self.const = const
            if allow_2d:
                self.allow_2d = True
            self._ufs = {}

        def _uf(self, n):
            if n not in self._ufs:
                self._ufs[n] = z3.Function("%s%d" % (self.pname, n) if n != 1 else self.pname,
                                           *([z3.RealSort()] * (n + 1)))
            return self._ufs[n]

        def _one(self, *args):
            if self.const:
                t = z3.Real(self.pname)
            else:
                t = self._uf(len(args))(*[_t(a) for a in args])
            if self.positive:
                fact(t > 0)
            return Sym(t)

        def get_at_value(self, *args):
            if self.const:
                if len(args) == 0 or not hasattr(args[0], "__len__"):
                    return self._one()
                out = _np.empty(len(args[0]), dtype=object)
                for i in range(len(out)):
                    out[i] = self._one()
                return out
            arrs = [a for a in args if isinstance(a, _np.ndarray) and a.ndim > 0]
            if not arrs:
                return self._one(*args)
            shape = arrs[0].shape
            bargs = [_np.broadcast_to(_np.asarray(a, dtype=object), shape) for a in args]
            out = _np.empty(shape, dtype=object)
            for i in _np.ndindex(shape):
                out[i] = self._one(*[b[i] for b in bargs])
            return out

    return SymProp


def make_sym_fluid(is_gas, name="symfluid", comp_linear=True, const_props=()):
    """A Fluid whose properties are uninterpreted functions (holds for every fluid of that shape)."""
    from pandapipes.properties.fluids import Fluid, FluidPropertyLinear, FluidPropertyConstant
    SymProp = make_sym_property_class()
    props = {
        "density": SymProp("rho", const="density" in const_props),
        "viscosity": SymProp("eta", const="viscosity" in const_props),
        "heat_capacity": SymProp("cp", const="heat_capacity" in const_props),
        "molar_mass": FluidPropertyConstant(Sym(z3.Real("molar_mass"))),
    }
    if is_gas:
        slope, offset = Sym(z3.Real("K_slope")), Sym(z3.Real("K_offset"))

        class PosLinear(FluidPropertyLinear):
            """the real linear property class; physical admissibility (K > 0) is recorded as a
            fact at every evaluation point"""
            def get_at_value(self, arg):
                out = super().get_at_value(arg)
                for v in (_np.asarray(out, dtype=object).ravel()):
                    if isinstance(v, Sym):
                        fact(v.t > 0)
                return out
        props["compressibility"] = PosLinear(slope, offset)
        props["der_compressibility"] = FluidPropertyConstant(slope)
        props["lhv"] = FluidPropertyConstant(Sym(z3.Real("lhv")))
        props["hhv"] = FluidPropertyConstant(Sym(z3.Real("hhv")))
    else:
        props["compressibility"] = FluidPropertyConstant(1.0)
        props["der_compressibility"] = FluidPropertyConstant(0.0)
    f = Fluid(name, "gas" if is_gas else "liquid", **props)
    return f


# ------------------------------------------------------------------------------------------------
NEWTON_CALLS = []


def sym_newton(func, x0, fprime=None, args=(), tol=1.48e-8, maxiter=50, fprime2=None, x1=None,
               rtol=0.0, full_output=False, disp=True):
    """contract: returns a root of func (the real closure is executed symbolically on it)"""
    x0a = _np.asarray(x0, dtype=object)
    scalar = x0a.ndim == 0

    class _R:
        pass
    if x0a.size == 0:
        root = x0a.copy()
    else:
        root = _np.empty(x0a.shape, dtype=object)
        for i in _np.ndindex(x0a.shape):
            v = fresh("lam_cw")
            fact(v > 0)
            root[i] = Sym(v)
        if ENG.witness is not None:
            # concolic mode: the witness value of the root is the numeric root at the witness
            from .evalterm import evaluate
            import math
            from scipy.optimize import newton as _real_newton
            fargs = [_np.array([evaluate(_t(c), ENG.witness, ENG.wfuncs) for c in _np.asarray(a, dtype=object).ravel()])
                     for a in args]
            x0f = _np.array([evaluate(_t(c), ENG.witness, ENG.wfuncs) for c in x0a.ravel()])

            def ffloat(lam, re_, k_, d_):
                return lam ** (-0.5) + 2 * _np.log10(2.51 / (re_ * _np.sqrt(lam)) + k_ / (3.71 * d_))
            try:
                rt = _np.atleast_1d(_real_newton(ffloat, x0f, args=tuple(fargs), maxiter=200, tol=1e-13))
            except Exception:
                rt = x0f
            for j, c in enumerate(root.ravel()):
                ENG.witness[c.t.decl().name()] = float(rt[j])
        val = func(root, *args)
        for i in _np.ndindex(x0a.shape):
            fact(_t(val[i]) == 0)
    NEWTON_CALLS.append((func, root, args))
    if not full_output:
        return root if not scalar else root[()]
    if scalar or x0a.size == 1:
        r = _R()
        r.converged = True
        return (root if not scalar else root[()]), r
    r = _R()
    r.root = root
    r.converged = _np.ones(root.shape, dtype=bool)
    return r


# ------------------------------------------------------------------------------------------------
_PATCHED = {}
_SAVED = []


def _set(modname, attr, value):
    mod = importlib.import_module(modname)
    if hasattr(mod, attr):
        _SAVED.append((mod, attr, getattr(mod, attr)))
    setattr(mod, attr, value)


def named_constants():
    """(name -> Sym, assumptions)"""
    g = Sym(z3.Real("g"))
    pc = Sym(z3.Real("Pconv"))
    pn = Sym(z3.Real("p_n"))
    tn = Sym(z3.Real("T_n"))
    pi = Sym(z3.Real("pi"))
    ass = [g.t > 0, pc.t > 0, pn.t > 0, tn.t > 0, pi.t > 3, pi.t < 4]
    return {"GRAVITATION_CONSTANT": g, "P_CONVERSION": pc, "NORMAL_PRESSURE": pn,
            "NORMAL_TEMPERATURE": tn, "pi": pi}, ass


CONST_VALUES = {"g": "981/100", "Pconv": "100000", "p_n": "101325/100000", "T_n": "27315/100"}


def install(numba_pyfunc=False, symbolic_constants=True, pamb_stub=True):
    """install shim + stubs; idempotent"""
    global _REAL_PCORR
    logging.disable(logging.CRITICAL)
    import warnings
    warnings.filterwarnings('ignore')
    patched = _snpmod.install()
    pf = importlib.import_module("pandapipes.pipeflow")
    bsm = importlib.import_module("pandapipes.pf.build_system_matrix")
    pfs = importlib.import_module("pandapipes.pf.pipeflow_setup")
    dc = importlib.import_module("pandapipes.pf.derivative_calculation")
    ct = importlib.import_module("pandapipes.component_models.component_toolbox")
    _set("pandapipes.pipeflow", "spsolve", sym_spsolve)
    _set("pandapipes.pf.build_system_matrix", "csr_matrix", SymMatrix)
    _set("pandapipes.pf.pipeflow_setup", "coo_matrix", coo_wrap)
    _set("pandapipes.pf.derivative_calculation", "newton", sym_newton)
    if pamb_stub:
        if _REAL_PCORR is None:
            _REAL_PCORR = ct.p_correction_height_air
        for m in ("pandapipes.component_models.component_toolbox",
                  "pandapipes.component_models.junction_component",
                  "pandapipes.component_models.pipe_component"):
            _set(m, "p_correction_height_air", sym_p_correction_height_air)
    ass = []
    if symbolic_constants:
        consts, ass = named_constants()
        for name, mod in list(sys.modules.items()):
            if mod is None or not name.startswith("pandapipes") or ".test" in name:
                continue
            for cn in ("GRAVITATION_CONSTANT", "P_CONVERSION", "NORMAL_PRESSURE",
                       "NORMAL_TEMPERATURE"):
                if cn in getattr(mod, "__dict__", {}) and isinstance(mod.__dict__[cn], float):
                    if name == "pandapipes.constants":
                        continue
                    _set(name, cn, consts[cn])
        snp.pi = consts["pi"]
    if numba_pyfunc:
        bind_numba_pyfunc()
    return patched, ass


def bind_numba_pyfunc():
    """execute the numba twins from their own Python source (`.py_func`)"""
    try:
        from numba.core.dispatcher import Dispatcher
    except Exception:      # numba missing: the repo falls back to numpy itself
        return []
    done = []
    for modname in ("pandapipes.pf.derivative_toolbox_numba", "pandapipes.pf.internals_toolbox",
                    "pandapipes.pf.result_extraction"):
        mod = importlib.import_module(modname)
        for k, v in list(mod.__dict__.items()):
            if isinstance(v, Dispatcher):
                _set(modname, k, v.py_func)
                done.append(modname + "." + k)
        # inside py_func bodies `bool`/`int` etc. may be numba type objects
        for tn in ("bool", "int", "float"):
            if tn in mod.__dict__ and mod.__dict__[tn] is not getattr(builtins, tn):
                _set(modname, tn, getattr(builtins, tn))
    return done


def fix_numba_builtins():
    """with NUMBA_DISABLE_JIT the kernels run as plain Python, where the names `bool`/`int`/`float` imported from numba
    are type objects numpy cannot use as dtypes: rebind them to the builtins (float runs of the twins in the workers)"""
    import os
    if os.environ.get("NUMBA_DISABLE_JIT") != "1":
        return
    for modname in ("pandapipes.pf.derivative_toolbox_numba", "pandapipes.pf.internals_toolbox",
                    "pandapipes.pf.result_extraction"):
        mod = importlib.import_module(modname)
        for tn in ("bool", "int", "float"):
            if tn in mod.__dict__ and mod.__dict__[tn] is not getattr(builtins, tn):
                _set(modname, tn, getattr(builtins, tn))


def uninstall():
    while _SAVED:
        mod, attr, val = _SAVED.pop()
        setattr(mod, attr, val)
    _snpmod.uninstall()
