"""Discharging obligations (DESIGN 3.5): rewriter -> z3 (timeout) -> cvc5 (optional)."""
import time

import z3

from .sym import _t, Sym


class Stats:
    def __init__(self):
        self.obligations = 0
        self.rewriter = 0
        self.z3_unsat = 0
        self.cvc5_unsat = 0
        self.sat = 0
        self.unknown = 0
        self.queries = 0
        self.solver_s = 0.0
        self.samples = []
        self.reach_checked = 0
        self.reach_failed = 0
        self.cvc5_cross = 0
        self.cvc5_disagree = 0

    def merge(self, d):
        for k, v in d.items():
            if k == "samples":
                self.samples.extend(v)
            else:
                setattr(self, k, getattr(self, k) + v)

    def as_dict(self):
        return {k: getattr(self, k) for k in
                ("obligations", "rewriter", "z3_unsat", "cvc5_unsat", "sat", "unknown", "queries",
                 "solver_s", "samples", "reach_checked", "reach_failed", "cvc5_cross",
                 "cvc5_disagree")}


STATS = Stats()
QUICK_TIMEOUT_MS = 20000


def is_zero_by_rewriter(t):
    try:
        s = z3.simplify(t, som=True)
        if z3.is_rational_value(s) and s.as_fraction() == 0:
            return True
        # second chance: multiply out divisions (som does not normalise quotients)
        return False
    except z3.Z3Exception:
        return False


def _cvc5_check(hyps, neg_goal, timeout_ms):
    """second opinion through an SMT-LIB2 dump; returns 'unsat' | 'sat' | 'unknown'"""
    try:
        import cvc5  # noqa
        from cvc5 import Kind  # noqa
    except Exception:
        return 'unknown'
    s = z3.Solver()
    for h in hyps:
        s.add(h)
    s.add(neg_goal)
    smt = s.to_smt2()
    try:
        slv = cvc5.Solver()
        slv.setOption("tlimit-per", str(int(timeout_ms)))
        slv.setLogic("QF_UFNRA")
        ip = cvc5.InputParser(slv)
        ip.setStringInput(cvc5.InputLanguage.SMT_LIB_2_6, smt, "q")
        sm = ip.getSymbolManager()
        res = None
        while True:
            cmd = ip.nextCommand()
            if cmd.isNull():
                break
            out = cmd.invoke(slv, sm)
            o = str(out).strip()
            if o in ("sat", "unsat", "unknown"):
                res = o
        return res or 'unknown'
    except Exception:
        return 'unknown'


class _Abstractor:
    """replace non-linear subterms (products of >= 2 non-constants, quotients by non-constants,
    UF applications, powers) by fresh constants, consistently (z3 terms are hash-consed).  The
    result is a *weakening*: `unsat` of the abstraction implies `unsat` of the original."""

    def __init__(self):
        self.memo = {}
        self.vars = {}

    def var(self, e):
        k = e.get_id()
        if k not in self.vars:
            self.vars[k] = z3.Real("nl!%d" % len(self.vars))
        return self.vars[k]

    def ab(self, e):
        k = e.get_id()
        if k in self.memo:
            return self.memo[k]
        r = self._ab(e)
        self.memo[k] = r
        return r

    def _ab(self, e):
        if z3.is_rational_value(e) or z3.is_true(e) or z3.is_false(e):
            return e
        kind = e.decl().kind()
        ch = e.children()
        if kind == z3.Z3_OP_UNINTERPRETED:
            return e if not ch else self.var(e)
        if kind == z3.Z3_OP_MUL:
            nc = [c for c in ch if not z3.is_rational_value(c)]
            if len(nc) >= 2:
                return self.var(e)
        if kind == z3.Z3_OP_DIV:
            if not z3.is_rational_value(ch[1]):
                return self.var(e)
        if kind == z3.Z3_OP_POWER:
            return self.var(e)
        nch = [self.ab(c) for c in ch]
        return e.decl()(*nch) if nch else e


def abstract_check(hyps, goal, timeout_ms=3000):
    """linear abstraction pre-check; returns True when the abstraction is unsat"""
    try:
        ab = _Abstractor()
        s = z3.Solver()
        s.set("timeout", int(timeout_ms))
        for h in hyps:
            s.add(ab.ab(z3.simplify(h)))
        s.add(z3.Not(ab.ab(z3.simplify(goal))))
        return str(s.check()) == 'unsat'
    except z3.Z3Exception:
        return False


def check(hyps, goal, timeout_ms=None, sample=None, use_cvc5=False, want_model=True):
    """Decide  hyps |= goal.  Returns (verdict, model, method) with verdict in
    {'unsat' (holds), 'sat' (counterexample), 'unknown'}."""
    timeout_ms = timeout_ms or QUICK_TIMEOUT_MS
    STATS.obligations += 1
    t0 = time.time()
    # 1. rewriter on equalities
    g = goal
    if z3.is_eq(g) and g.arg(0).sort() == z3.RealSort():
        if is_zero_by_rewriter(g.arg(0) - g.arg(1)):
            STATS.rewriter += 1
            STATS.solver_s += time.time() - t0
            if sample is not None and len(STATS.samples) < 6:
                STATS.samples.append({"obligation": sample, "method": "rewriter",
                                      "goal": _short(goal)})
            return 'unsat', None, 'rewriter'
    STATS.queries += 1
    if abstract_check(hyps, goal):
        STATS.z3_unsat += 1
        STATS.solver_s += time.time() - t0
        if sample is not None and len(STATS.samples) < 6:
            STATS.samples.append({"obligation": sample, "method": "z3 on the linear abstraction",
                                  "goal": _short(goal), "n_hyps": len(hyps)})
        return 'unsat', None, 'z3-abstract'
    s = z3.Solver()
    s.set("timeout", int(timeout_ms))
    for h in hyps:
        s.add(h)
    s.add(z3.Not(goal))
    STATS.queries += 1
    r = str(s.check())
    STATS.solver_s += time.time() - t0
    if r == 'unsat':
        STATS.z3_unsat += 1
        if sample is not None and len(STATS.samples) < 6:
            STATS.samples.append({"obligation": sample, "method": "z3", "goal": _short(goal),
                                  "n_hyps": len(hyps)})
        return 'unsat', None, 'z3'
    if r == 'sat':
        STATS.sat += 1
        return 'sat', (s.model() if want_model else None), 'z3'
    if use_cvc5:
        t1 = time.time()
        r2 = _cvc5_check(hyps, z3.Not(goal), timeout_ms)
        STATS.solver_s += time.time() - t1
        STATS.queries += 1
        if r2 == 'unsat':
            STATS.cvc5_unsat += 1
            return 'unsat', None, 'cvc5'
    STATS.unknown += 1
    return 'unknown', None, 'z3'


def reachable(hyps, timeout_ms=None):
    """reachability twin: the hypothesis set must be satisfiable"""
    s = z3.Solver()
    s.set("timeout", int(timeout_ms or QUICK_TIMEOUT_MS))
    for h in hyps:
        s.add(h)
    t0 = time.time()
    r = str(s.check())
    STATS.solver_s += time.time() - t0
    STATS.queries += 1
    STATS.reach_checked += 1
    if r == 'unsat':
        STATS.reach_failed += 1
    return r, (s.model() if r == 'sat' else None)


def cross_check_cvc5(hyps, goal, timeout_ms=20000):
    """deterministic sample of discharged obligations is re-decided by cvc5"""
    r = _cvc5_check(hyps, z3.Not(goal), timeout_ms)
    STATS.cvc5_cross += 1
    if r == 'sat':
        STATS.cvc5_disagree += 1
    return r


def _short(t, n=300):
    try:
        s = t.sexpr()
    except Exception:
        s = str(t)
    s = " ".join(s.split())
    return s if len(s) <= n else s[:n] + " ..."


def model_value(model, t):
    """float value of term t in model (UFs get the model's interpretation)"""
    v = model.eval(_t(t) if not z3.is_expr(t) else t, model_completion=True)
    if z3.is_rational_value(v):
        fr = v.as_fraction()
        return float(fr)
    if z3.is_algebraic_value(v):
        return float(v.approx(20).as_fraction())
    try:
        return float(str(v))
    except Exception:
        return None
