"""Discharging obligations (DESIGN 3.5): rewriter -> z3 (timeout) -> cvc5 (optional)."""
import os
import time

import z3

from .sym import _t, Sym


import threading


def guarded_check(solver, timeout_ms):
    """solver.check() with a watchdog: z3's own timeout is not always honoured inside nlsat, so the
    context is interrupted from a timer thread (the answer is then 'unknown')"""
    fired = [False]

    def _interrupt():
        fired[0] = True
        solver.ctx.interrupt()
    t = threading.Timer(timeout_ms / 1000.0 * 1.3 + 0.5, _interrupt)
    t.daemon = True
    t.start()
    try:
        return str(solver.check())
    except z3.Z3Exception:
        return 'unknown'
    finally:
        t.cancel()
        t.join(0.2)
        if fired[0]:
            # the interrupt may have arrived after check() returned: a pending cancellation would make the *next* z3
            # call fail ("push canceled"); it is consumed here by throw-away calls
            for _ in range(3):
                try:
                    z3.simplify(z3.Real("__drain__") + 0)
                    d_ = z3.Solver(ctx=solver.ctx)
                    d_.push()
                    d_.check()
                    d_.pop()
                    break
                except z3.Z3Exception:
                    continue


def _model_dict(m):
    out = {}
    for d in m.decls():
        if d.arity() != 0:
            continue
        v = m[d]
        try:
            if z3.is_rational_value(v):
                fr = v.as_fraction()
                out[d.name()] = fr.numerator / fr.denominator
            elif z3.is_algebraic_value(v):
                fr = v.approx(20).as_fraction()
                out[d.name()] = fr.numerator / fr.denominator
        except Exception:
            pass
    return out


def forked_check(assertions, timeout_ms):
    """decide satisfiability in a forked child that is killed at the deadline (z3's nlsat can
    ignore both its timeout and interrupts); returns (verdict, model dict or None)"""
    import json
    import os
    import select
    import signal
    # purely linear queries never reach nlsat: decide them in-process (a fork of this process is expensive)
    try:
        ab = _Abstractor()
        for a in assertions:
            ab.ab(a)
        linear = not ab.vars
    except Exception:
        linear = False
    if linear:
        s = z3.Solver()
        s.set("timeout", int(timeout_ms))
        for a in assertions:
            s.add(a)
        r = guarded_check(s, timeout_ms)
        return r, (_model_dict(s.model()) if r == 'sat' else None)
    rfd, wfd = os.pipe()
    pid = os.fork()
    if pid == 0:
        try:
            os.close(rfd)
            s = z3.Solver()
            s.set("timeout", int(timeout_ms))
            for a in assertions:
                s.add(a)
            r = str(s.check())
            md = _model_dict(s.model()) if r == 'sat' else None
            os.write(wfd, json.dumps([r, md]).encode())
        except BaseException:
            pass
        finally:
            os._exit(0)
    os.close(wfd)
    buf = b""
    deadline = time.time() + timeout_ms / 1000.0 * 1.2 + 1.0
    try:
        while True:
            left = deadline - time.time()
            if left <= 0:
                break
            rd, _, _ = select.select([rfd], [], [], left)
            if not rd:
                break
            chunk = os.read(rfd, 1 << 16)
            if not chunk:
                break
            buf += chunk
    finally:
        os.close(rfd)
        try:
            os.kill(pid, signal.SIGKILL)
        except OSError:
            pass
        try:
            os.waitpid(pid, 0)
        except OSError:
            pass
    if not buf:
        return 'unknown', None
    try:
        r, md = json.loads(buf.decode())
        return r, md
    except Exception:
        return 'unknown', None


class Stats:
    def __init__(self):
        self.obligations = 0
        self.rewriter = 0
        self.z3_unsat = 0
        self.cvc5_unsat = 0
        self.sat = 0
        self.unknown = 0
        self.queries = 0
        self.solver_s = 0.0
        self.samples = []
        self.reach_checked = 0
        self.reach_failed = 0
        self.cvc5_cross = 0
        self.cvc5_agree = 0
        self.cvc5_disagree = 0

    def merge(self, d):
        for k, v in d.items():
            if k == "samples":
                self.samples.extend(v)
            else:
                setattr(self, k, getattr(self, k) + v)

    def as_dict(self):
        return {k: getattr(self, k) for k in
                ("obligations", "rewriter", "z3_unsat", "cvc5_unsat", "sat", "unknown", "queries",
                 "solver_s", "samples", "reach_checked", "reach_failed", "cvc5_cross", "cvc5_agree",
                 "cvc5_disagree")}


STATS = Stats()
QUICK_TIMEOUT_MS = 20000


def is_zero_by_rewriter(t):
    try:
        s = z3.simplify(t, som=True)
        if z3.is_rational_value(s) and s.as_fraction() == 0:
            return True
        # second chance: multiply out divisions (som does not normalise quotients)
        return False
    except z3.Z3Exception:
        return False


class _PolyTooBig(Exception):
    pass


def _padd(p, q, sign=1):
    r = dict(p)
    for m, c in q.items():
        v = r.get(m, 0) + sign * c
        if v == 0:
            r.pop(m, None)
        else:
            r[m] = v
    return r


def _pmul(p, q, limit=400000):
    if len(p) * len(q) > 4 * limit:
        raise _PolyTooBig()
    r = {}
    for m1, c1 in p.items():
        for m2, c2 in q.items():
            m = tuple(sorted(m1 + m2))
            v = r.get(m, 0) + c1 * c2
            if v == 0:
                r.pop(m, None)
            else:
                r[m] = v
        if len(r) > limit:
            raise _PolyTooBig()
    return r


class _RatNorm:
    """numerator / denominator normal form (polynomials with exact rational coefficients over
    atoms: variables, UF applications, If-terms) of a term built from + - * /; decides
    rational-function identities without the solver"""

    def __init__(self, atomize_affine=False, shared=None):
        self.memo = {}
        self.atomize_affine = atomize_affine
        self._aff = {}
        self.shared = shared or {}       # id -> term: compound subterms that occur on both sides, kept as atoms

    def nd(self, e):
        k = e.get_id()
        if k not in self.memo:
            self.memo[k] = (e, self._nd(e))       # keeps the key term alive (ids of dead terms are reused)
        return self.memo[k][1]

    def is_affine_sum(self, e):
        """ADD node whose summands are atoms or numeral multiples of atoms"""
        k = e.get_id()
        if k in self._aff:
            return self._aff[k][1]
        ok = e.decl().kind() in (z3.Z3_OP_ADD, z3.Z3_OP_SUB)
        if ok:
            for c in e.children():
                ck = c.decl().kind()
                if z3.is_rational_value(c):
                    continue
                if ck == z3.Z3_OP_MUL:
                    cc = c.children()
                    if len(cc) == 2 and z3.is_rational_value(cc[0]) and cc[1].decl().kind() not in (
                            z3.Z3_OP_ADD, z3.Z3_OP_SUB, z3.Z3_OP_MUL, z3.Z3_OP_DIV):
                        continue
                    ok = False
                    break
                if ck in (z3.Z3_OP_ADD, z3.Z3_OP_SUB, z3.Z3_OP_DIV, z3.Z3_OP_UMINUS):
                    ok = False
                    break
        self._aff[k] = (e, ok)
        return ok

    def factor(self, c):
        """normal form of a factor of a product / operand of a quotient"""
        if self.atomize_affine and self.is_affine_sum(c):
            from fractions import Fraction
            self.memo.setdefault(("atom", c.get_id()), (c, None))
            return {(c.get_id(),): Fraction(1)}, {(): Fraction(1)}
        return self.nd(c)

    def _nd(self, e):
        from fractions import Fraction
        one = {(): Fraction(1)}
        if z3.is_rational_value(e):
            fr = e.as_fraction()
            fr = Fraction(fr.numerator, fr.denominator)
            return ({(): fr} if fr != 0 else {}), one
        kind = e.decl().kind()
        ch = e.children()
        if e.get_id() in self.shared:
            return {(e.get_id(),): Fraction(1)}, one
        if kind in (z3.Z3_OP_ADD, z3.Z3_OP_SUB):
            n, d = self.nd(ch[0])
            for c in ch[1:]:
                n2, d2 = self.nd(c)
                sg = -1 if kind == z3.Z3_OP_SUB else 1
                if d2 == d:
                    n = _padd(n, n2, sg)
                else:
                    n, d = _padd(_pmul(n, d2), _pmul(n2, d), sg), _pmul(d, d2)
            return n, d
        if kind == z3.Z3_OP_UMINUS:
            n, d = self.nd(ch[0])
            return {m: -c for m, c in n.items()}, d
        if kind == z3.Z3_OP_MUL:
            n, d = one, one
            for c in ch:
                n2, d2 = self.factor(c)
                n, d = _pmul(n, n2), _pmul(d, d2)
            return n, d
        if kind == z3.Z3_OP_DIV:
            n1, d1 = self.factor(ch[0])
            n2, d2 = self.factor(ch[1])
            return _pmul(n1, d2), _pmul(d1, n2)
        self.memo.setdefault(("atom", e.get_id()), (e, None))
        return {(e.get_id(),): Fraction(1)}, one


_ARITH_OPS = None


def _shared_subterms(sa, sb):
    """compound arithmetic subterms (sums, products, quotients) that occur in both terms (terms are hash-consed, so
    occurrence is identity); abstracting them keeps the polynomials small.  Sound: an identity that holds with the shared
    subterms read as opaque atoms holds for their values."""
    # quotients only: a shared product of atoms next to its expanded factors would hide a polynomial identity
    ops = (z3.Z3_OP_DIV,)

    def subterms(e):
        out, stack = {}, [e]
        while stack:
            t = stack.pop()
            if t.get_id() in out:
                continue
            out[t.get_id()] = t
            stack.extend(t.children())
        return out
    A, B = subterms(sa), subterms(sb)
    ra, rb = sa.get_id(), sb.get_id()
    return {i: t for i, t in A.items() if i in B and i not in (ra, rb) and z3.is_app(t) and t.decl().kind() in ops
            and not z3.is_rational_value(t)}


def is_zero_by_ratnorm(a, b):
    """a == b as rational functions (denominators are covered by the definedness conditions)"""
    # sort_sums: commuted sums inside UF arguments / atomised affine sums become the same term (atoms are keyed by term identity)
    sa, sb = z3.simplify(a, sort_sums=True), z3.simplify(b, sort_sums=True)
    if sa.eq(sb):
        return True
    for atomize, share in ((True, True), (True, False), (False, False)):
        try:
            rn = _RatNorm(atomize_affine=atomize, shared=_shared_subterms(sa, sb) if share else None)
            na, da = rn.nd(sa)
            nb, db = rn.nd(sb)
            res_ = _padd(_pmul(na, db, 60000), _pmul(nb, da, 60000), -1)
            if len(res_) == 0:
                return True
            if os.environ.get("SVX_RN_DEBUG"):
                print("RN residual (atomize=%s share=%s): %d monomials" % (atomize, share, len(res_)), flush=True)
                atoms = {}
                for mono in list(res_)[:3]:
                    for aid in mono:
                        t_ = rn.memo.get(("atom", aid), (rn.shared.get(aid),))[0]
                        atoms[aid] = _short(t_, 900) if t_ is not None else "?"
                    print("   mono", mono, res_[mono], flush=True)
                for aid, tx in atoms.items():
                    print("   atom", aid, tx, flush=True)
        except (z3.Z3Exception, RecursionError, _PolyTooBig) as e_:
            if os.environ.get("SVX_RN_DEBUG"):
                print("RN exception", type(e_).__name__, flush=True)
            continue
    return False


def _forked(fn, timeout_s):
    """run fn() in a forked child that is killed at the deadline; returns its (json-able) result or None"""
    import json
    import os
    import select
    import signal
    rfd, wfd = os.pipe()
    pid = os.fork()
    if pid == 0:
        try:
            os.close(rfd)
            os.write(wfd, json.dumps(fn()).encode())
        except BaseException:
            pass
        finally:
            os._exit(0)
    os.close(wfd)
    buf = b""
    deadline = time.time() + timeout_s
    try:
        while True:
            left = deadline - time.time()
            if left <= 0:
                break
            rd, _, _ = select.select([rfd], [], [], left)
            if not rd:
                break
            chunk = os.read(rfd, 1 << 16)
            if not chunk:
                break
            buf += chunk
    finally:
        os.close(rfd)
        try:
            os.kill(pid, signal.SIGKILL)
        except OSError:
            pass
        try:
            os.waitpid(pid, 0)
        except OSError:
            pass
    try:
        return json.loads(buf.decode()) if buf else None
    except ValueError:
        return None


# cross-check sampling: every CROSS_EVERY-th obligation that z3 discharged is re-decided by cvc5 (at most CROSS_MAX per job)
CROSS_EVERY, CROSS_MAX = 40, 2


def configure(tier):
    """set by the runner before the jobs are forked"""
    global CROSS_EVERY, CROSS_MAX
    quick = tier != "thorough"
    CROSS_EVERY = int(os.environ.get("VERIF_CVC5_EVERY", "40" if quick else "8"))
    CROSS_MAX = int(os.environ.get("VERIF_CVC5_MAX", "2" if quick else "12"))


def _maybe_cross(hyps, goal):
    if CROSS_EVERY <= 0 or STATS.cvc5_cross >= CROSS_MAX or (STATS.z3_unsat % CROSS_EVERY) != 1:
        return
    t0 = time.time()
    r = _forked(lambda: _cvc5_check(hyps, z3.Not(goal), 8000), 12.0)
    STATS.solver_s += time.time() - t0
    STATS.cvc5_cross += 1
    if r == 'sat':
        STATS.cvc5_disagree += 1
    elif r == 'unsat':
        STATS.cvc5_agree += 1


def _cvc5_check(hyps, neg_goal, timeout_ms):
    """second opinion through an SMT-LIB2 dump; returns 'unsat' | 'sat' | 'unknown'"""
    try:
        import cvc5  # noqa
        from cvc5 import Kind  # noqa
    except Exception:
        return 'unknown'
    # symbol names carry identities like dxh0[p|junction:1:0]: '|' cannot occur in an SMT-LIB symbol -> rename
    asserts = list(hyps) + [neg_goal]
    consts, seen, stack = {}, set(), list(asserts)
    while stack:
        e = stack.pop()
        if e.get_id() in seen:
            continue
        seen.add(e.get_id())
        if z3.is_const(e) and e.decl().kind() == z3.Z3_OP_UNINTERPRETED:
            consts[e.decl().name()] = e
        stack.extend(e.children())
    ren = [(c, z3.Const("v%d" % i, c.sort())) for i, (n, c) in enumerate(sorted(consts.items()))]
    s = z3.Solver()
    for h in asserts:
        s.add(z3.substitute(h, *ren) if ren else h)
    smt = s.to_smt2()
    try:
        slv = cvc5.Solver()
        slv.setOption("tlimit-per", str(int(timeout_ms)))
        slv.setLogic("QF_UFNRA")
        ip = cvc5.InputParser(slv)
        ip.setStringInput(cvc5.InputLanguage.SMT_LIB_2_6, smt, "q")
        sm = ip.getSymbolManager()
        res = None
        while True:
            cmd = ip.nextCommand()
            if cmd.isNull():
                break
            out = cmd.invoke(slv, sm)
            o = str(out).strip()
            if o in ("sat", "unsat", "unknown"):
                res = o
        return res or 'unknown'
    except Exception as e:
        if os.environ.get("SVX_DEBUG_CVC5"):
            import sys
            sys.stderr.write("cvc5: %r\n" % (e,))
        return 'unknown'


class _Abstractor:
    """replace non-linear subterms (products of >= 2 non-constants, quotients by non-constants,
    UF applications, powers) by fresh constants, consistently (z3 terms are hash-consed).  The
    result is a *weakening*: `unsat` of the abstraction implies `unsat` of the original."""

    def __init__(self):
        # z3 term ids are only unique among *live* terms: every key term is kept alive next to its entry
        self.memo = {}
        self.vars = {}

    def var(self, e):
        k = e.get_id()
        if k not in self.vars:
            self.vars[k] = (e, z3.Real("nl!%d" % len(self.vars)))
        return self.vars[k][1]

    def ab(self, e):
        k = e.get_id()
        if k in self.memo:
            return self.memo[k][1]
        r = self._ab(e)
        self.memo[k] = (e, r)
        return r

    def _ab(self, e):
        if z3.is_rational_value(e) or z3.is_true(e) or z3.is_false(e):
            return e
        kind = e.decl().kind()
        ch = e.children()
        if kind == z3.Z3_OP_UNINTERPRETED:
            return e if not ch else self.var(e)
        if kind == z3.Z3_OP_MUL:
            nc = [c for c in ch if not z3.is_rational_value(c)]
            if len(nc) >= 2:
                return self.var(e)
        if kind == z3.Z3_OP_DIV:
            if not z3.is_rational_value(ch[1]):
                return self.var(e)
        if kind == z3.Z3_OP_POWER:
            return self.var(e)
        nch = [self.ab(c) for c in ch]
        return e.decl()(*nch) if nch else e


def abstract_check(hyps, goal, timeout_ms=3000):
    """linear abstraction pre-check; returns True when the abstraction is unsat"""
    try:
        ab = _Abstractor()
        s = z3.Solver()
        s.set("timeout", int(timeout_ms))
        for h in hyps:
            s.add(ab.ab(z3.simplify(h)))
        s.add(z3.Not(ab.ab(z3.simplify(goal))))
        return guarded_check(s, timeout_ms) == 'unsat'
    except z3.Z3Exception:
        return False


def numeric_refutes(goal, env, funcs=None, tol=1e-7):
    """True only if the goal is confidently false at the concrete point env (used to obtain a
    replayable counterexample candidate cheaply; the replay on the real code is the arbiter)"""
    from .evalterm import evaluate, EvalError

    def val(t):
        return evaluate(t, env, funcs)

    def ref(g):
        k = g.decl().kind()
        ch = g.children()
        if z3.is_true(g):
            return False
        if z3.is_false(g):
            return True
        if k == z3.Z3_OP_EQ and ch[0].sort() == z3.RealSort():
            a, b = val(ch[0]), val(ch[1])
            return abs(a - b) > tol * (1 + abs(a) + abs(b))
        if k == z3.Z3_OP_AND:
            return any(ref(c) for c in ch)
        if k == z3.Z3_OP_OR:
            return all(ref(c) for c in ch)
        if k == z3.Z3_OP_IMPLIES:
            return bool(val(ch[0])) and ref(ch[1])
        if k == z3.Z3_OP_ITE:
            return ref(ch[1]) if val(ch[0]) else ref(ch[2])
        if k in (z3.Z3_OP_LE, z3.Z3_OP_LT):
            a, b = val(ch[0]), val(ch[1])
            return a > b + tol * (1 + abs(a) + abs(b))
        if k in (z3.Z3_OP_GE, z3.Z3_OP_GT):
            a, b = val(ch[0]), val(ch[1])
            return a < b - tol * (1 + abs(a) + abs(b))
        return False
    try:
        return ref(goal)
    except (EvalError, KeyError, ZeroDivisionError, ValueError, OverflowError):
        return False


_ITE_CACHE = {}
_ABS_MEMO = {}


def canon_abs(t):
    """rewrite abs-shaped If-terms  If(u >= 0, u, -u) / If(-u >= 0, -u, u) ...  into one canonical
    form |c| with c chosen among {u, -u} deterministically, so that |m| and |-m| become the same
    term (z3 terms are hash-consed)"""
    memo = {}

    def is_neg_of(a, b):
        s_ = z3.simplify(a + b)
        return z3.is_rational_value(s_) and s_.as_fraction() == 0

    def rec(e):
        k = e.get_id()
        if k in memo:
            return memo[k][1]
        ch = e.children()
        if not ch:
            memo[k] = (e, e)
            return e
        nch = [rec(c) for c in ch]
        r = e.decl()(*nch) if any(a.get_id() != b.get_id() for a, b in zip(ch, nch)) else e
        if z3.is_app_of(r, z3.Z3_OP_ITE) and r.arg(1).sort() == z3.RealSort():
            c, a, b = r.arg(0), r.arg(1), r.arg(2)
            try:
                if is_neg_of(a, b):
                    # value is `a` when c else `-a`; find out whether c <=> a >= 0 or c <=> a <= 0
                    kind = _abs_kind(c, a)
                    if kind is not None:
                        sa, sb = z3.simplify(a), z3.simplify(b)
                        cc = sa if str(sa) <= str(sb) else sb
                        absc = z3.If(cc >= 0, cc, -cc)
                        r = absc if kind > 0 else -absc
            except z3.Z3Exception:
                pass
        memo[k] = (e, r)
        return r
    return rec(t)


def _abs_kind(c, a):
    """+1 if (c <=> a >= 0 or a > 0, i.e. the If is |a|), -1 if it is -|a|, else None"""
    key = (c.get_id(), a.get_id())
    if key in _ABS_MEMO and _ABS_MEMO[key][0].eq(c) and _ABS_MEMO[key][1].eq(a):
        return _ABS_MEMO[key][2]
    ab = _Abstractor()
    v = z3.Real("abs!probe")
    # treat `a` as an opaque variable: c must be a comparison of a (or -a) with 0
    try:
        ca = z3.substitute(z3.simplify(c), (z3.simplify(a), v))
    except z3.Z3Exception:
        ca = None
    res = None
    cands = [c]
    for cand in ([ca] if ca is not None else []) + cands:
        s1 = z3.Solver()
        s1.set("timeout", 500)
        a_ = v if cand is ca else a
        s1.add(a_ != 0, z3.Not(cand == (a_ >= 0)))
        if str(s1.check()) == 'unsat':
            res = 1
            break
        s2 = z3.Solver()
        s2.set("timeout", 500)
        s2.add(a_ != 0, z3.Not(cand == (a_ <= 0)))
        if str(s2.check()) == 'unsat':
            res = -1
            break
    if len(_ABS_MEMO) > 5000:
        _ABS_MEMO.clear()
    _ABS_MEMO[key] = (c, a, res)
    return res



def _collect_ite_conds(t, acc, seen):
    stack = [t]
    while stack:
        e = stack.pop()
        i = e.get_id()
        if i in seen:
            continue
        seen.add(i)
        if z3.is_app_of(e, z3.Z3_OP_ITE):
            acc[e.arg(0).get_id()] = e.arg(0)
        stack.extend(e.children())


def resolve_ites(hyps, goal):
    """decide the conditions of If-terms (abs, max, min) occurring in the goal from the hypotheses
    with the cheap linear abstraction and substitute the decided ones; sound (only entailed facts
    are used) and makes most |m|-laden identities accessible to the rewriter"""
    conds = {}
    _collect_ite_conds(goal, conds, set())
    if not conds or len(conds) > 24:
        return goal
    key = id(hyps)
    ent = _ITE_CACHE.get(key)
    if ent is None or ent[0] is not hyps:
        ab = _Abstractor()
        s = z3.Solver()
        s.set("timeout", 1500)
        try:
            for h in hyps:
                s.add(ab.ab(z3.simplify(h)))
        except z3.Z3Exception:
            return goal
        ent = (hyps, ab, s, {})
        _ITE_CACHE.clear()
        _ITE_CACHE[key] = ent
    _, ab, s, decided = ent
    subs = []
    for cid, c in conds.items():
        if cid not in decided or not decided[cid][0].eq(c):
            v = None
            try:
                ca = ab.ab(z3.simplify(c))
                s.push()
                s.add(z3.Not(ca))
                if guarded_check(s, 1500) == 'unsat':
                    v = True
                s.pop()
                if v is None:
                    s.push()
                    s.add(ca)
                    if guarded_check(s, 1500) == 'unsat':
                        v = False
                    s.pop()
            except z3.Z3Exception:
                v = None
            decided[cid] = (c, v)
        if decided[cid][1] is not None:
            subs.append((c, z3.BoolVal(decided[cid][1])))
    if not subs:
        return goal
    return z3.simplify(z3.substitute(goal, *subs))


def check(hyps, goal, timeout_ms=None, sample=None, use_cvc5=False, want_model=True, witness=None):
    """Decide  hyps |= goal.  Returns (verdict, model, method) with verdict in
    {'unsat' (holds), 'sat' (counterexample), 'unknown'}."""
    timeout_ms = timeout_ms or QUICK_TIMEOUT_MS
    if z3.is_and(goal) and goal.num_args() > 1:
        # a conjunction is decided conjunct by conjunct (each may be discharged by the rewriter)
        worst, model, how = 'unsat', None, 'rewriter'
        snap = (STATS.rewriter, STATS.z3_unsat, STATS.cvc5_unsat, STATS.unknown)
        for c in goal.children():
            r, m, h = check(hyps, c, timeout_ms=timeout_ms, sample=sample, use_cvc5=use_cvc5, want_model=want_model, witness=witness)
            STATS.obligations -= 1
            if r == 'sat':
                STATS.obligations += 1
                return r, m, h
            if r == 'unknown':
                worst = 'unknown'
            how = h if h != 'rewriter' else how
        STATS.obligations += 1
        STATS.rewriter, STATS.z3_unsat, STATS.cvc5_unsat, STATS.unknown = snap
        if worst == 'unknown':
            STATS.unknown += 1
        elif how == 'rewriter':
            STATS.rewriter += 1
        else:
            STATS.z3_unsat += 1
        return worst, model, how
    STATS.obligations += 1
    t0 = time.time()
    # 0. If-terms whose condition is entailed by the hypotheses are resolved
    try:
        goal = resolve_ites(hyps, goal)
    except z3.Z3Exception:
        pass
    try:
        goal = canon_abs(goal)
    except (z3.Z3Exception, RecursionError):
        pass
    if z3.is_true(goal):
        STATS.rewriter += 1
        return 'unsat', None, 'rewriter'
    # 1. rewriter on equalities
    g = goal
    if z3.is_eq(g) and g.arg(0).sort() == z3.RealSort():
        if is_zero_by_rewriter(g.arg(0) - g.arg(1)) or is_zero_by_ratnorm(g.arg(0), g.arg(1)):
            STATS.rewriter += 1
            STATS.solver_s += time.time() - t0
            if sample is not None and len(STATS.samples) < 6:
                STATS.samples.append({"obligation": sample, "method": "rewriter",
                                      "goal": _short(goal)})
            return 'unsat', None, 'rewriter'
    STATS.queries += 1
    if abstract_check(hyps, goal):
        STATS.z3_unsat += 1
        STATS.solver_s += time.time() - t0
        if sample is not None and len(STATS.samples) < 6:
            STATS.samples.append({"obligation": sample, "method": "z3 on the linear abstraction",
                                  "goal": _short(goal), "n_hyps": len(hyps)})
        _maybe_cross(hyps, goal)
        return 'unsat', None, 'z3-abstract'
    if witness is not None and numeric_refutes(goal, witness[0], witness[1]):
        # the path's own witness point falsifies the goal: a counterexample candidate without search
        STATS.sat += 1
        STATS.solver_s += time.time() - t0
        return 'sat', {k: v for k, v in dict(witness[0]).items() if isinstance(v, (int, float))}, 'witness'
    STATS.queries += 1
    r, mdict = forked_check(list(hyps) + [z3.Not(goal)], timeout_ms)
    STATS.solver_s += time.time() - t0
    if r == 'unsat':
        STATS.z3_unsat += 1
        if sample is not None and len(STATS.samples) < 6:
            STATS.samples.append({"obligation": sample, "method": "z3", "goal": _short(goal),
                                  "n_hyps": len(hyps)})
        _maybe_cross(hyps, goal)
        return 'unsat', None, 'z3'
    if r == 'sat':
        STATS.sat += 1
        return 'sat', mdict, 'z3'
    if use_cvc5:
        t1 = time.time()
        r2 = _cvc5_check(hyps, z3.Not(goal), timeout_ms)
        STATS.solver_s += time.time() - t1
        STATS.queries += 1
        if r2 == 'unsat':
            STATS.cvc5_unsat += 1
            return 'unsat', None, 'cvc5'
    STATS.unknown += 1
    return 'unknown', None, 'z3'


def reachable(hyps, timeout_ms=None):
    """reachability twin: the hypothesis set must be satisfiable"""
    t0 = time.time()
    r, md = forked_check(list(hyps), int(timeout_ms or QUICK_TIMEOUT_MS))
    STATS.solver_s += time.time() - t0
    STATS.queries += 1
    STATS.reach_checked += 1
    if r == 'unsat':
        STATS.reach_failed += 1
    return r, md


def cross_check_cvc5(hyps, goal, timeout_ms=20000):
    """deterministic sample of discharged obligations is re-decided by cvc5"""
    r = _cvc5_check(hyps, z3.Not(goal), timeout_ms)
    STATS.cvc5_cross += 1
    if r == 'sat':
        STATS.cvc5_disagree += 1
    return r


def _short(t, n=300):
    try:
        s = t.sexpr()
    except Exception:
        s = str(t)
    s = " ".join(s.split())
    return s if len(s) <= n else s[:n] + " ..."


def model_value(model, t):
    """float value of term t in model (UFs get the model's interpretation)"""
    if isinstance(model, dict):
        from .evalterm import evaluate
        try:
            return evaluate(_t(t) if not z3.is_expr(t) else t, model)
        except Exception:
            return None
    v = model.eval(_t(t) if not z3.is_expr(t) else t, model_completion=True)
    if z3.is_rational_value(v):
        fr = v.as_fraction()
        return float(fr)
    if z3.is_algebraic_value(v):
        return float(v.approx(20).as_fraction())
    try:
        return float(str(v))
    except Exception:
        return None
