"""Symbolic execution harness around the real pandapipes.pipeflow (DESIGN 3.3)."""
import importlib
import time

import numpy as np
import pandas as pd
import z3

from .sym import Sym, ENG, real, _t, InfeasiblePath, PathBudgetExceeded
from . import stubs
from .stubs import CTX


class PathResult:
    __slots__ = ("path", "defined", "facts", "lin", "systems", "value", "exc", "decisions",
                 "havoc", "cuts", "assumed", "witness")

    def hyps(self, lin=True, defined=True, assumed=True):
        h = list(ENG.assumptions) + list(self.facts) + list(self.path)
        if assumed:
            h += list(self.assumed)
        if defined:
            h += list(self.defined)
        if lin:
            h += list(self.lin)
        return h


class Exploration:
    def __init__(self):
        self.paths = []
        self.truncated = False
        self.nforks = 0
        self.nqueries = 0
        self.solver_s = 0.0
        self.wall_s = 0.0
        self.infeasible = 0


def explore(fn, assumptions=(), max_paths=256, eager=True, keep_exc=True, feas_timeout_ms=3000):
    """run `fn` once per feasible decision path (replay-based DFS)"""
    ENG.reset_all()
    ENG.assumptions = list(assumptions)
    ENG.eager = eager
    ENG.feas_timeout_ms = feas_timeout_ms
    ENG.pending = [[]]
    ex = Exploration()
    t0 = time.time()
    while ENG.pending:
        if len(ex.paths) >= max_paths:
            ex.truncated = True
            break
        prefix = ENG.pending.pop()
        ENG.start_run(prefix)
        CTX.reset()
        pr = PathResult()
        pr.witness = None
        try:
            pr.value = fn()
            pr.exc = None
        except InfeasiblePath:
            ex.infeasible += 1
            continue
        except PathBudgetExceeded:
            ex.truncated = True
            continue
        except Exception as e:          # an exception of the real code is a path outcome
            pr.value = None
            pr.exc = e
        pr.path = list(ENG.path)
        pr.defined = list(ENG.defined)
        pr.assumed = list(ENG.assumed)
        pr.facts = list(CTX.facts)
        pr.lin = list(CTX.lin)
        pr.systems = list(CTX.systems)
        pr.decisions = list(ENG.decisions)
        pr.havoc = dict(CTX.havoc_map)
        pr.cuts = dict(CTX.cuts)
        ex.paths.append(pr)
    ex.nforks = ENG.nforks
    ex.nqueries = ENG.nqueries
    ex.solver_s = ENG.solver_s
    ex.wall_s = time.time() - t0
    return ex


class Witness(dict):
    """valuation used in concolic mode: explicit values, else defaults by name pattern"""
    KIND_DEFAULTS = {"m": 0.8, "p": 4.0, "msl": -1.0, "T": 330.0, "Tout": 325.0}

    def __init__(self, values=None, kinds=None, **kw):
        super().__init__(values or {})
        self.kinds = dict(self.KIND_DEFAULTS)
        self.kinds.update(kinds or {})

    def __missing__(self, name):
        base = name.split("[", 1)[0].split("@", 1)[0]
        base = base.rstrip("ABCDEFGHIJKLMNOPQRSTUVWXYZ_") if base not in self.kinds else base
        if base in self.kinds:
            v = self.kinds[base]
        elif name in CONST_DEFAULTS:
            v = CONST_DEFAULTS[name]
        else:
            raise KeyError("witness has no value for %r" % name)
        self[name] = v
        return v


CONST_DEFAULTS = {"g": 9.81, "Pconv": 1e5, "p_n": 1.01325, "T_n": 273.15, "pi": 3.141592653589793,
                  "K_slope": -0.0022, "K_offset": 1.0, "molar_mass": 16.6, "lhv": 10.0, "hhv": 11.0,
                  "rho": 998.0, "eta": 1.0e-3, "cp": 4182.0, "amb_pre": 268.15}


def witness_funcs():
    import math
    from .evalterm import DEFAULT_FUNCS
    f = dict(DEFAULT_FUNCS)
    f.update({
        "rho": lambda T: 1000.0 - 0.4 * (T - 293.15) if T > 200 else 0.8,
        "eta": lambda T, *a: 1.0e-3 * (1 + 0.001 * (T - 293.15)) if T > 200 else 1.1e-5,
        "eta2": lambda T, p: 1.0e-3,
        "cp": lambda T: 4180.0 + 0.5 * (T - 293.15),
        "pamb": lambda h: 1.01325 * math.pow(1 - h * 0.0065 / 288.15, 5.255),
    })
    return f


def explore_witnesses(fn, witnesses, assumptions=()):
    """concolic exploration: one path per witness valuation (deduplicated by decisions)"""
    ENG.reset_all()
    ENG.assumptions = list(assumptions)
    ex = Exploration()
    t0 = time.time()
    seen = set()
    for w in witnesses:
        ENG.start_run([])
        ENG.witness = w
        ENG.wfuncs = witness_funcs()
        CTX.reset()
        pr = PathResult()
        try:
            pr.value = fn()
            pr.exc = None
        except Exception as e:
            pr.value = None
            pr.exc = e
        finally:
            ENG.witness = None
        pr.witness = w
        key = tuple(ENG.decisions)
        if key in seen:
            continue
        seen.add(key)
        pr.path = list(ENG.path)
        pr.defined = list(ENG.defined)
        pr.assumed = list(ENG.assumed)
        pr.facts = list(CTX.facts)
        pr.lin = list(CTX.lin)
        pr.systems = list(CTX.systems)
        pr.decisions = list(ENG.decisions)
        pr.havoc = dict(CTX.havoc_map)
        pr.cuts = dict(CTX.cuts)
        ex.paths.append(pr)
    ex.wall_s = time.time() - t0
    return ex


# ------------------------------------------------------------------------------------------------
def symcol(df, col, prefix, ident=None, only=None):
    """replace a float column by fresh named symbols `prefix[<identity>]`"""
    vals = np.empty(len(df), dtype=object)
    old = df[col].values
    for i, ix in enumerate(df.index):
        key = ident.get(ix, ix) if ident else ix
        if only is not None and ix not in only:
            vals[i] = old[i]
        elif isinstance(old[i], float) and np.isnan(old[i]):
            vals[i] = old[i]        # NaN-ness is structure
        else:
            vals[i] = real("%s[%s]" % (prefix, key))
    df[col] = pd.Series(vals, index=df.index, dtype=object)
    return [v for v in vals if isinstance(v, Sym)]


def V(name):
    return z3.Real(name)


# ------------------------------------------------------------------------------------------------
_ORIG = {}


def _pit_row_names(net, kind, pit):
    """identity names for pit rows: <table>:<element>:<k>"""
    from pandapipes.pf.pipeflow_setup import get_lookup, get_table_name
    tbl_lookup = get_lookup(net, kind, "table")
    names = []
    cnt = {}
    ident = getattr(CTX, "ident", None) or {}
    owners = _internal_node_owners(net) if kind == "node" else {}
    pos_in_tbl = {}
    for r in range(len(pit)):
        tname = get_table_name(tbl_lookup, int(pit[r, 0]))
        e = int(pit[r, 1])
        if tname in owners:
            # internal nodes carry no element index: identify them by their owning element
            k0 = pos_in_tbl.get(tname, 0)
            pos_in_tbl[tname] = k0 + 1
            otbl, e = owners[tname][k0] if k0 < len(owners[tname]) else (tname, e)
            e = ident.get(otbl, {}).get(e, e)
        else:
            e = ident.get(tname, {}).get(e, e)
        k = cnt.get((tname, e), 0)
        cnt[(tname, e)] = k + 1
        names.append("%s:%s:%d" % (tname, e, k))
    nmap = getattr(CTX, "name_map", None)
    if nmap:
        names = [nmap.get(n, n) for n in names]
    return names


def _internal_node_owners(net):
    """internal node table -> list of (owner table, owner label) in pit order"""
    out = {}
    try:
        if "pipe" in net and len(net.pipe):
            lst = []
            for ix, sec in zip(net.pipe.index, net.pipe.sections.values):
                lst += [("pipe", int(ix))] * (int(sec) - 1)
            out["pipe_nodes"] = lst
        if "valve" in net and len(net.valve):
            from pandapipes.component_models.valve_component import Valve
            n_int = Valve.get_internal_node_number(net)
            out["valve_nodes"] = [("valve", int(ix)) for ix, k in zip(net.valve.index, n_int) for _ in range(int(k))]
    except Exception:
        pass
    return out


def _havoc(net, mode):
    from pandapipes.idx_node import PINIT, MDOTSLACKINIT, TINIT, NODE_TYPE, P
    from pandapipes.idx_branch import MDOTINIT, TOUTINIT
    from pandapipes.pf.pipeflow_setup import get_lookup
    fixed = getattr(CTX, "fixed", None) or set()
    if mode == "bidirectional":
        npit, bpit = net["_pit"]["node"], net["_pit"]["branch"]
        nn = _pit_row_names(net, "node", npit)
        bn = _pit_row_names(net, "branch", bpit)
        stages = ("hyd", "heat")
    else:
        npit, bpit = net["_active_pit"]["node"], net["_active_pit"]["branch"]
        m = "hydraulics" if mode == "hydraulics" else "heat_transfer"
        nmask = get_lookup(net, "node", "active_" + m)
        bmask = get_lookup(net, "branch", "active_" + m)
        nn = [x for x, a in zip(_pit_row_names(net, "node", net["_pit"]["node"]), nmask) if a]
        bn = [x for x, a in zip(_pit_row_names(net, "branch", net["_pit"]["branch"]), bmask) if a]
        stages = ("hyd",) if mode == "hydraulics" else ("heat",)
    hm = CTX.havoc_map
    tag = getattr(CTX, "sym_tag", "")
    _base = getattr(CTX, "havoc_value", None) or globals()["real"]
    _xf = getattr(CTX, "havoc_xform", None)
    _kind = [None]

    def real(nm):
        v = _base(nm)
        return _xf(nm, v) if _xf is not None else v
    for st in stages:
        if st == "hyd":
            for i, name in enumerate(nn):
                if ("p", name) not in fixed:
                    hm[("p", name)] = (npit[i, PINIT], "p%s[%s]" % (tag, name))
                    npit[i, PINIT] = real("p%s[%s]" % (tag, name))
                if npit[i, NODE_TYPE] == P and ("msl", name) not in fixed:
                    hm[("msl", name)] = (npit[i, MDOTSLACKINIT], "msl%s[%s]" % (tag, name))
                    npit[i, MDOTSLACKINIT] = real("msl%s[%s]" % (tag, name))
            for b, name in enumerate(bn):
                if ("m", name) not in fixed:
                    hm[("m", name)] = (bpit[b, MDOTINIT], "m%s[%s]" % (tag, name))
                    bpit[b, MDOTINIT] = real("m%s[%s]" % (tag, name))
        else:
            for i, name in enumerate(nn):
                if ("T", name) not in fixed:
                    hm[("T", name)] = (npit[i, TINIT], "T%s[%s]" % (tag, name))
                    npit[i, TINIT] = real("T%s[%s]" % (tag, name))
            for b, name in enumerate(bn):
                if ("Tout", name) not in fixed:
                    hm[("Tout", name)] = (bpit[b, TOUTINIT], "Tout%s[%s]" % (tag, name))
                    bpit[b, TOUTINIT] = real("Tout%s[%s]" % (tag, name))
    CTX.last_names = (nn, bn)
    CTX.cur_net = net


def _nr_wrapper(net, funct, mode, solver_vars, tols, pit_names, iter_name):
    if CTX.havoc:
        _havoc(net, mode)
    if CTX.single_iteration:
        net._options[iter_name] = 1
    hook = getattr(CTX, "pre_solve_hook", None)
    if hook is not None:
        hook(net, mode)
    n0 = len(CTX.systems)
    r = _ORIG["newton_raphson"](net, funct, mode, solver_vars, tols, pit_names, iter_name)
    # remember which unknown belongs to which column of the captured systems
    nn, bn = getattr(CTX, "last_names", ([], []))
    for s in CTX.systems[n0:]:
        s.setdefault("mode", mode)
        s.setdefault("node_names", list(nn))
        s.setdefault("branch_names", list(bn))
    return r


def _bsm_wrapper(net, branch_pit, node_pit, heat_mode):
    """records which unknown belongs to which column of the system that is being assembled"""
    from pandapipes.pf.pipeflow_setup import get_lookup
    m = "heat_transfer" if heat_mode else "hydraulics"
    try:
        nmask = get_lookup(net, "node", "active_" + m)
        bmask = get_lookup(net, "branch", "active_" + m)
        nn = [x for x, a in zip(_pit_row_names(net, "node", net["_pit"]["node"]), nmask) if a]
        bn = [x for x, a in zip(_pit_row_names(net, "branch", net["_pit"]["branch"]), bmask) if a]
        if len(nn) == len(node_pit) and len(bn) == len(branch_pit):
            CTX.last_names = (nn, bn)
    except Exception:
        pass
    CTX.cur_heat = bool(heat_mode)
    CTX.cur_net = net
    return _ORIG["build_system_matrix"](net, branch_pit, node_pit, heat_mode)


def _init_options_wrapper(net, **kwargs):
    """start of a pipeflow call: the update unknowns are numbered per call"""
    CTX.sys_base = len(CTX.systems)
    return _ORIG["init_options"](net, **kwargs)


def _fin_stub(net, niter, residual_norm, nonlinear_method, errors, tols, tol_res, vals_old,
              solver_vars, pit_names, filtered):
    # verdict assumed here (the verdict logic itself is C05's subject); histories can force a failure
    net.converged = not getattr(CTX, "force_fail", False)


def _assume_wrapper(f, value):
    def g(*a, **kw):
        old = ENG.policy
        ENG.policy = ('assume', value)
        try:
            return f(*a, **kw)
        finally:
            ENG.policy = old
    g._svx_wrapped = f
    return g


def install(numba_pyfunc=False, force_verdict=True, symbolic_constants=True):
    patched, ass = stubs.install(numba_pyfunc=numba_pyfunc, symbolic_constants=symbolic_constants)
    pf = importlib.import_module("pandapipes.pipeflow")
    # regime: reported pressures are non-negative (the only comparison in Junction.extract_results
    # is the warning-only test `p < 0`; it is assumed False instead of forked)
    from pandapipes.component_models.junction_component import Junction
    fn = Junction.__dict__["extract_results"].__func__
    if not hasattr(fn, "_svx_wrapped"):
        Junction.extract_results = classmethod(_assume_wrapper(fn, False))
    if "newton_raphson" not in _ORIG:
        _ORIG["newton_raphson"] = pf.newton_raphson
        _ORIG["finalize_iteration"] = pf.finalize_iteration
    pf.newton_raphson = _nr_wrapper
    pf.finalize_iteration = _fin_stub if force_verdict else _ORIG["finalize_iteration"]
    if "build_system_matrix" not in _ORIG:
        _ORIG["build_system_matrix"] = pf.build_system_matrix
        _ORIG["init_options"] = pf.init_options
    pf.build_system_matrix = _bsm_wrapper
    pf.init_options = _init_options_wrapper
    CTX.fixed = set()
    CTX.ident = {}
    CTX.sym_tag = ""
    CTX.pre_solve_hook = None
    CTX.havoc_xform = None
    CTX.force_fail = False
    CTX.x_xform = None
    CTX.name_map = None
    return patched, ass


def uninstall():
    pf = importlib.import_module("pandapipes.pipeflow")
    if "newton_raphson" in _ORIG:
        pf.newton_raphson = _ORIG["newton_raphson"]
        pf.finalize_iteration = _ORIG["finalize_iteration"]
    if "build_system_matrix" in _ORIG:
        pf.build_system_matrix = _ORIG["build_system_matrix"]
        pf.init_options = _ORIG["init_options"]
    stubs.uninstall()


def system_unknown_names(s):
    """column -> (kind, identity-name) for a captured system"""
    nn, bn = s["node_names"], s["branch_names"]
    heat = s.get("heat")
    if heat is None:
        heat = s["n"] == len(nn) + len(bn) and s["mode"] == "heat"
    cols = []
    if s["mode"] == "heat" or s.get("heat"):
        cols += [("T", n) for n in nn] + [("Tout", b) for b in bn]
    else:
        cols += [("p", n) for n in nn] + [("m", b) for b in bn]
        # slack mass unknowns follow, in order of slack nodes
        nsl = s["n"] - len(cols)
        cols += [("mslcol", i) for i in range(nsl)]
    return cols


def discover_fixed(systems):
    """unknowns whose update is forced to 0 by a row with a single non-zero constant entry and
    zero right-hand side (identity rows of prescribed values), see DESIGN 3.3"""
    fixed = set()
    for s in systems:
        cols = system_unknown_names(s)
        rows = {}
        for (r, c), v in s["entries"].items():
            if stubs._is_zero(v):
                continue
            rows.setdefault(r, []).append((c, v))
        for r, ent in rows.items():
            if len(ent) != 1:
                continue
            c, v = ent[0]
            if isinstance(v, Sym):
                sv = z3.simplify(v.t)
                if not z3.is_rational_value(sv):
                    continue
            if not stubs._is_zero(s["b"][r]):
                continue
            if c < len(cols) and cols[c][0] != "mslcol":
                fixed.add(cols[c])
    return fixed


def objcol(df, col):
    """make a float column object-typed so that the real code can store terms in it"""
    if col in df:
        df[col] = pd.Series(df[col].values.astype(object), index=df.index, dtype=object)


def reach_by_witness(p, tol=1e-6):
    """reachability twin in concolic mode: the witness valuation itself satisfies the hypotheses
    (inequalities exactly, the linear-solve contract up to round-off)"""
    from .evalterm import evaluate, EvalError
    from . import discharge as D
    D.STATS.reach_checked += 1
    funcs = witness_funcs()
    bad = []
    for h in list(ENG.assumptions) + list(p.facts) + list(p.path) + list(p.assumed) + list(p.defined):
        try:
            if z3.is_eq(h):
                a, b = evaluate(h.arg(0), p.witness, funcs), evaluate(h.arg(1), p.witness, funcs)
                ok = abs(a - b) <= tol * (1 + abs(a) + abs(b))
            else:
                ok = bool(evaluate(h, p.witness, funcs))
        except (EvalError, KeyError, ZeroDivisionError, ValueError, OverflowError):
            continue
        if not ok:
            bad.append(h)
    if bad:
        D.STATS.reach_failed += 1
    return bad


# ---- encoding validation (DESIGN 3.6): symbolic result terms vs. a float run of the real code ----
def witness_fluid(is_gas, env):
    """concrete Fluid implementing the same interpretations the witness uses for the fluid UFs"""
    import numpy as _rnp
    from pandapipes.properties.fluids import (Fluid, FluidProperty, FluidPropertyLinear,
                                              FluidPropertyConstant)
    wf = witness_funcs()

    class FnProp(FluidProperty):
        def __init__(self, f):
            super().__init__()
            self.f = f

        def get_at_value(self, *args):
            if not args:
                return self.f()
            if any(hasattr(a, "__len__") for a in args):
                return _rnp.vectorize(self.f, otypes=[float])(*args)
            return self.f(*args)

    props = {"density": FnProp(wf["rho"]), "viscosity": FnProp(wf["eta"]), "heat_capacity": FnProp(wf["cp"]),
             "molar_mass": FluidPropertyConstant(env["molar_mass"])}
    if is_gas:
        props["compressibility"] = FluidPropertyLinear(env["K_slope"], env["K_offset"])
        props["der_compressibility"] = FluidPropertyConstant(env["K_slope"])
        props["lhv"] = FluidPropertyConstant(env["lhv"])
        props["hhv"] = FluidPropertyConstant(env["hhv"])
    else:
        props["compressibility"] = FluidPropertyConstant(1.0)
        props["der_compressibility"] = FluidPropertyConstant(0.0)
    return Fluid("witnessfluid", "gas" if is_gas else "liquid", **props)


def physical_witness(spec, names, pipeflow_kwargs, is_gas, build_kwargs=None):
    """witness whose state symbols (p, m, msl, T, Tout per identity) carry the values of a *converged float run of the
    real code* at the nominal inputs: the concolic path then follows the physically consistent branch decisions (flow
    directions) and numeric refutation works at a point that satisfies the fixed-point hypotheses up to the solver
    tolerance.  Returns None if the real run does not converge."""
    import pandapipes as pp
    from . import nets
    from pandapipes.idx_node import PINIT, MDOTSLACKINIT, TINIT
    from pandapipes.idx_branch import MDOTINIT, TOUTINIT
    fixed, ident, tag = CTX.fixed, CTX.ident, CTX.sym_tag
    mode_sp = CTX.spsolve_mode
    env = Witness(dict(names))
    uninstall()
    stubs.fix_numba_builtins()
    try:
        net, _ = nets.build(spec, nets.concrete_valuer(env), fluid=witness_fluid(is_gas, env), **(build_kwargs or {}))
        kw = dict(pipeflow_kwargs)
        kw["use_numba"] = False
        kw.update(tol_p=1e-9, tol_m=1e-9, tol_res=1e-7, tol_T=1e-8, max_iter_hyd=200, max_iter_therm=200,
                  max_iter_bidirect=200)
        try:
            pp.pipeflow(net, **kw)
        except Exception as e:   # noqa
            import os as _os
            if _os.environ.get("SVX_DEBUG"):
                print("physical_witness: real run failed: %r" % (e,), flush=True)
            return None
        out = dict(names)
        npit, bpit = net["_pit"]["node"], net["_pit"]["branch"]
        for i, nm in enumerate(_pit_row_names(net, "node", npit)):
            out["p[%s]" % nm] = float(npit[i, PINIT])
            out["T[%s]" % nm] = float(npit[i, TINIT])
            out["msl[%s]" % nm] = float(npit[i, MDOTSLACKINIT])
        for i, nm in enumerate(_pit_row_names(net, "branch", bpit)):
            out["m[%s]" % nm] = float(bpit[i, MDOTINIT])
            out["Tout[%s]" % nm] = float(bpit[i, TOUTINIT])
        return Witness(out)
    finally:
        install(numba_pyfunc=bool(pipeflow_kwargs.get("use_numba")))
        CTX.fixed, CTX.ident, CTX.sym_tag = fixed, ident, tag
        CTX.spsolve_mode = mode_sp


def concrete_twin_run(spec, env, pipeflow_kwargs, is_gas, build_kwargs=None, fixed_point=False, record=None):
    """float run of the *real* code (real numpy / scipy) from the same havocked state, one step.  With fixed_point the
    linear solve is replaced by a zero update (as in the symbolic fixed-point runs); `record` collects the right-hand
    sides the real code assembled"""
    import pandapipes as pp
    from . import nets
    fixed, ident, tag = CTX.fixed, CTX.ident, CTX.sym_tag
    mode_sp = CTX.spsolve_mode
    uninstall()
    stubs.fix_numba_builtins()
    pf = importlib.import_module("pandapipes.pipeflow")
    saved = (pf.newton_raphson, pf.finalize_iteration, pf.spsolve)
    real_spsolve = pf.spsolve

    def sp(A, b):
        if record is not None:
            record.append(np.array(b, dtype=float))
        if fixed_point:
            return np.zeros(len(b))
        return real_spsolve(A, b)
    try:
        pf.newton_raphson = _nr_wrapper
        pf.finalize_iteration = _fin_stub
        pf.spsolve = sp
        CTX.havoc_value = lambda name: float(env[name])
        net, _ = nets.build(spec, nets.concrete_valuer(env), fluid=witness_fluid(is_gas, env),
                            **(build_kwargs or {}))
        exc = None
        try:
            pp.pipeflow(net, **pipeflow_kwargs)
        except Exception as e:   # noqa
            exc = e
        return net, exc
    finally:
        CTX.havoc_value = None
        pf.newton_raphson, pf.finalize_iteration, pf.spsolve = saved
        install(numba_pyfunc=bool(pipeflow_kwargs.get("use_numba")))
        CTX.fixed, CTX.ident, CTX.sym_tag = fixed, ident, tag
        CTX.spsolve_mode = mode_sp


def validate_against_impl(spec, p, pipeflow_kwargs, is_gas, rtol=1e-6, build_kwargs=None, fixed_point=False):
    """compare every res_* cell: symbolic term evaluated at the witness vs. float run of the real
    code at the witness.  Returns (cells compared, list of mismatches)."""
    from .evalterm import evaluate, EvalError
    import math
    if p.witness is None or p.exc is not None:
        return 0, []
    if "__singular__" in p.witness:
        return 0, []      # the system is singular at this witness: the float twin has no defined answer
    env = p.witness
    funcs = witness_funcs()
    snet = p.value
    rec = []
    cnet, exc = concrete_twin_run(spec, env, pipeflow_kwargs, is_gas, build_kwargs, fixed_point=fixed_point, record=rec)
    if exc is not None:
        return 0, ["concrete twin raised %r" % exc]
    n, bad = 0, []
    # right-hand sides (residual rows) the real float code assembled vs. the symbolic rows evaluated at the witness
    for k, (s_, bf) in enumerate(zip(p.systems, rec)):
        if len(bf) != s_["n"]:
            bad.append("system %d: %d rows in the float run, %d symbolically" % (k, len(bf), s_["n"]))
            continue
        for r in range(s_["n"]):
            try:
                bv = evaluate(_t(s_["b"][r]), env, funcs)
            except (EvalError, ZeroDivisionError, ValueError, OverflowError):
                continue
            n += 1
            if math.isnan(bf[r]) or abs(bv - bf[r]) > rtol * (1 + abs(bv) + abs(bf[r])):
                bad.append("system %d row %d: %r (term) vs %r (float run)" % (k, r, bv, bf[r]))
    for key in [k for k in snet.keys() if isinstance(k, str) and k.startswith("res_")]:
        st, ct = snet[key], cnet[key] if key in cnet else None
        if ct is None or not hasattr(st, "columns"):
            continue
        for col in st.columns:
            if col not in ct.columns:
                continue
            for ix in st.index:
                a, b = st.at[ix, col], ct.at[ix, col]
                if isinstance(a, Sym):
                    try:
                        av = evaluate(a.t, env, funcs)
                    except (EvalError, ZeroDivisionError, ValueError, OverflowError) as e:
                        continue
                else:
                    av = a
                try:
                    an, bn = av is None or math.isnan(av), b is None or math.isnan(b)
                except TypeError:
                    continue
                if an or bn:
                    if an != bn:
                        bad.append("%s.%s[%s]: nan-ness differs (%r vs %r)" % (key, col, ix, av, b))
                    n += 1
                    continue
                n += 1
                if abs(av - b) > rtol * (1 + abs(av) + abs(b)):
                    bad.append("%s.%s[%s]: %r (term) vs %r (float run)" % (key, col, ix, av, b))
    return n, bad
