"""Common driver for all checks: job fan-out, replay of counterexamples, known findings,
evidence, exit codes (DESIGN 6)."""
import argparse
import hashlib
import json
import multiprocessing as mp
import os
import subprocess
import sys
import time
import traceback

VERIF = os.path.dirname(os.path.dirname(os.path.abspath(__file__)))
REPO = os.environ.get("VERIF_REPO", "/repo")
EXIT_OK, EXIT_VIOLATION, EXIT_HARNESS = 0, 1, 2


def source_shas(files):
    out = {}
    for f in files:
        p = os.path.join(REPO, f)
        try:
            out[f] = hashlib.sha1(open(p, "rb").read()).hexdigest()[:12]
        except OSError:
            out[f] = "missing"
    return out


def load_known():
    p = os.path.join(VERIF, "known_findings.json")
    if not os.path.exists(p):
        return []
    return json.load(open(p)).get("findings", [])


def _run_job(args):
    modname, job = args
    t0 = time.time()
    try:
        import importlib
        mod = importlib.import_module(modname)
        from . import discharge as _D
        _D.STATS = _D.Stats()
        r = mod.worker(job)
        r.setdefault("errors", [])
    except BaseException as e:   # noqa  (worker crash = harness error, reported)
        r = {"errors": ["%s: %s\n%s" % (type(e).__name__, e, traceback.format_exc()[-1500:])]}
    r["job"] = job.get("name", str(job))
    r["wall_s"] = time.time() - t0
    return r


def run(prop_id, modname, jobs_fn, meta, argv=None):
    """meta: dict(level, functions, files, stubs, assumptions, bound, outside, rule)"""
    ap = argparse.ArgumentParser()
    ap.add_argument("--tier", default=os.environ.get("VERIF_TIER", "quick"))
    ap.add_argument("--replay", default=None)
    ap.add_argument("--procs", type=int, default=int(os.environ.get("VERIF_PROCS", "8")))
    ap.add_argument("--only", default=None, help="substring filter on job names")
    a = ap.parse_args(argv)
    import importlib
    mod = importlib.import_module(modname)
    if a.replay:
        spec = json.load(open(a.replay))
        violated, detail = mod.replay(spec)
        print(json.dumps({"violated": bool(violated), "detail": detail}, default=str)[:4000])
        if violated:
            print("VIOLATION property=%s replay=%s" % (prop_id, a.replay))
            return EXIT_VIOLATION
        print("replay: property holds on this input")
        return EXIT_OK
    tier = "thorough" if a.tier == "thorough" else "quick"
    from . import discharge as _D
    _D.configure(tier)
    seed = int(os.environ.get("VERIF_SEED", "0") or 0)
    t0 = time.time()
    jobs = jobs_fn(tier, seed)
    if a.only:
        jobs = [j for j in jobs if a.only in j["name"]]
    for j in jobs:
        j["tier"] = tier
        j["seed"] = seed
    procs = max(1, min(a.procs, len(jobs)))
    from . import snp as _snp
    _snp.import_all()      # before forking: workers inherit the loaded modules
    if procs == 1:
        results = [_run_job((modname, j)) for j in jobs]
    else:
        # a worker that dies (OOM kill, signal) must not hang the check: the executor reports a broken pool, the jobs
        # without a result are then run one by one in this process
        from concurrent.futures import ProcessPoolExecutor
        from concurrent.futures.process import BrokenProcessPool
        ctx = mp.get_context(os.environ.get("VERIF_MP", "fork"))
        results = [None] * len(jobs)
        try:
            with ProcessPoolExecutor(max_workers=procs, mp_context=ctx) as pool:
                futs = [pool.submit(_run_job, (modname, j)) for j in jobs]
                for i, f in enumerate(futs):
                    try:
                        results[i] = f.result()
                    except BrokenProcessPool:
                        raise
        except BrokenProcessPool:
            print("note: a worker process died; finishing the remaining jobs sequentially", flush=True)
        for i, j in enumerate(jobs):
            if results[i] is None:
                results[i] = _run_job((modname, j))
    # ---- aggregate -------------------------------------------------------------------------
    agg = {"paths": 0, "feas_queries": 0, "obligations": 0, "rewriter": 0, "z3_unsat": 0,
           "cvc5_unsat": 0, "unknown": 0, "queries": 0, "solver_s": 0.0, "validated": 0,
           "reach_checked": 0, "reach_failed": 0, "cvc5_cross": 0, "cvc5_disagree": 0, "cvc5_agree": 0,
           "truncated_jobs": 0, "evaluated": 0}
    samples, cands, errors, inconclusive, per_job = [], [], [], [], []
    for r in results:
        for k in agg:
            if k in r:
                agg[k] += r[k]
        if r.get("truncated"):
            agg["truncated_jobs"] += 1
        samples += r.get("samples", [])[:2]
        cands += r.get("violations", [])
        errors += ["%s: %s" % (r["job"], e) for e in r.get("errors", [])]
        inconclusive += ["%s: %s" % (r["job"], e) for e in r.get("inconclusive", [])]
        per_job.append({"job": r["job"], "paths": r.get("paths", 0),
                        "obligations": r.get("obligations", 0), "wall_s": round(r["wall_s"], 2),
                        "truncated": bool(r.get("truncated"))})
    # ---- replay candidates, match known findings -------------------------------------------
    known = [k for k in load_known() if k.get("property") == prop_id and k.get("status") == "open"]
    os.makedirs(os.path.join(VERIF, "replays"), exist_ok=True)
    confirmed, unconfirmed, known_hit = [], [], {}
    seen_fp = {}
    for c in cands:
        fp = c["fingerprint"]
        seen_fp.setdefault(fp, []).append(c)
    for fp, lst in seen_fp.items():
        kf = next((k for k in known if k["fingerprint"] == fp), None)
        ok = None
        path = None
        # try counterexamples from different structures first
        seen_jobs, order = set(), []
        for c in lst:
            jn = str(c.get("detail", {}).get("job", ""))
            if jn not in seen_jobs:
                seen_jobs.add(jn)
                order.append(c)
        order += [c for c in lst if c not in order]
        for c in order[:int(os.environ.get("VERIF_MAX_REPLAYS", "16"))]:
            h = hashlib.sha1(json.dumps(c["replay"], sort_keys=True, default=str).encode()).hexdigest()[:10]
            path = os.path.join(VERIF, "replays", "%s_%s.json" % (prop_id, h))
            json.dump(c["replay"], open(path, "w"), indent=1, default=str)
            env = dict(os.environ)
            env.pop("NUMBA_DISABLE_JIT", None)      # replays run the compiled kernels, as users do
            pr = subprocess.run([sys.executable, os.path.join(VERIF, "run_check.py"), prop_id,
                                 "--replay", path], capture_output=True, text=True, timeout=900, env=env)
            if pr.returncode == EXIT_VIOLATION and ("VIOLATION property=%s" % prop_id) in pr.stdout:
                ok = (c, path)
                break
            if kf is None:
                try:
                    os.replace(path, os.path.join(VERIF, "replays", "unconfirmed_" + os.path.basename(path)))
                except OSError:
                    pass
        if ok:
            if kf is not None:
                known_hit[fp] = (kf, ok[1], len(lst))
                try:
                    os.remove(ok[1])
                except OSError:
                    pass
            else:
                confirmed.append((fp, ok[0], ok[1], len(lst)))
        else:
            unconfirmed.append((fp, lst[0], len(lst)))
    wall = time.time() - t0
    # ---- evidence --------------------------------------------------------------------------
    n_ob = agg["obligations"]
    cov = {
        "states": max(1, agg["paths"]),
        "transitions": max(1, agg["queries"] + agg["feas_queries"] + agg["rewriter"]),
        "traces_validated_against_impl": agg["validated"],
        "samples": samples[:8] if samples else [{"note": "no obligation sample recorded"}],
        "structures": len(jobs),
        "paths_explored": agg["paths"],
        "obligations": n_ob,
        "discharged": agg["rewriter"] + agg["z3_unsat"] + agg["cvc5_unsat"],
        "discharged_by": {"rewriter": agg["rewriter"], "z3": agg["z3_unsat"],
                          "cvc5": agg["cvc5_unsat"]},
        "inconclusive": agg["unknown"],
        "evaluated_without_solver": agg["evaluated"],
        "fork_feasibility_queries": agg["feas_queries"],
        "solver_queries": agg["queries"],
        "solver_seconds": round(agg["solver_s"], 2),
        "reachability_twins": {"checked": agg["reach_checked"], "vacuous": agg["reach_failed"]},
        "cvc5_cross_checks": {"run": agg["cvc5_cross"], "agree_unsat": agg["cvc5_agree"], "disagree": agg["cvc5_disagree"],
                              "undecided_by_cvc5": agg["cvc5_cross"] - agg["cvc5_agree"] - agg["cvc5_disagree"]},
        "truncated_structures": agg["truncated_jobs"],
        "functions_encoded": meta.get("functions", []),
        "source_sha1": source_shas(meta.get("files", [])),
        "bound": (meta.get("bound", {}).get(tier, meta.get("bound")) if isinstance(meta.get("bound"), dict)
                  else meta.get("bound")),
        "outside_claim": meta.get("outside", []),
        "stubs": meta.get("stubs", []),
        "per_structure": per_job[:200],
        "known_findings_hit": [k[0]["id"] for k in known_hit.values()],
        "unconfirmed_counterexamples": len(unconfirmed),
        "harness_errors": errors[:20],
        "inconclusive_obligations": inconclusive[:40],
        "exhaustive": False,
        "rule": meta.get("rule", ""),
    }
    ev = {"property_id": prop_id, "tier": tier, "seed": seed, "level": meta.get("level", "model_checking"),
          "coverage": cov, "assumptions": meta.get("assumptions", []), "wall_s": round(wall, 2),
          "violations": len(confirmed)}
    os.makedirs(os.path.join(VERIF, "evidence"), exist_ok=True)
    json.dump(ev, open(os.path.join(VERIF, "evidence", "%s.json" % prop_id), "w"), indent=1, default=str)
    # ---- report ----------------------------------------------------------------------------
    print("%s tier=%s structures=%d paths=%d obligations=%d (rewriter %d, z3 %d, cvc5 %d, "
          "inconclusive %d, evaluated %d) validated=%d cvc5-cross=%d/%d solver=%.1fs wall=%.1fs" % (
              prop_id, tier, len(jobs), agg["paths"], n_ob, agg["rewriter"], agg["z3_unsat"],
              agg["cvc5_unsat"], agg["unknown"], agg["evaluated"], agg["validated"],
              agg["cvc5_agree"], agg["cvc5_cross"], agg["solver_s"], wall))
    for fp, (kf, path, n) in known_hit.items():
        print("KNOWN-FINDING: property=%s %s [%s, %d counterexample(s) this run]" % (
            prop_id, kf["what"], kf["id"], n))
    for fp, c, path, n in confirmed:
        print("counterexample: %s (%d) %s" % (fp, n, json.dumps(c.get("detail", ""), default=str)[:600]))
        print("VIOLATION property=%s replay=%s" % (prop_id, path))
    rc = EXIT_OK
    if confirmed:
        rc = EXIT_VIOLATION
        for e in errors[:10]:
            print("HARNESS-ERROR:", e[:600])
    elif errors or unconfirmed or agg["reach_failed"] or agg["cvc5_disagree"]:
        for e in errors[:10]:
            print("HARNESS-ERROR:", e[:1500])
        for fp, c, n in unconfirmed[:10]:
            print("UNCONFIRMED counterexample (does not replay on the real code): %s %s" % (
                fp, json.dumps(c.get("detail", ""), default=str)[:600]))
        if agg["reach_failed"]:
            print("HARNESS-ERROR: %d vacuous hypothesis sets" % agg["reach_failed"])
        if agg["cvc5_disagree"]:
            print("HARNESS-ERROR: cvc5 disagrees with z3 on %d obligations" % agg["cvc5_disagree"])
        rc = EXIT_HARNESS
    if inconclusive:
        print("note: %d inconclusive obligations (not counted as success)" % len(inconclusive))
        for e in inconclusive[:5]:
            print("  inconclusive:", e[:300])
    return rc
