"""Two-run equivalence (DESIGN 3.3 / C04, C06, C07, C09, C12, C13, C17): the real pipeflow is executed
symbolically on two descriptions A and B from the *same* arbitrary pre-state (havoc symbols and
update unknowns are named by element identity and therefore shared).  Obligations:
  * the system B assembled equals the system A assembled (entry by entry, identity-matched),
  * every extracted result cell of B equals the corresponding cell of A,
for all values (hypotheses: A's linear-solve contract + both path conditions)."""
import math

import os

import numpy as np
import z3

from . import harness as H, nets, stubs, discharge as D
from .sym import Sym, _t, ENG, real
from .common import is_nan, finish_worker, model_inputs, expected_exc


class RunSpec:
    def __init__(self, spec, kw, ident=None, pre_calls=None, relabel_loads_between=False, build_kwargs=None,
                 row_map=None, col_map=None, edit_fn=None, fluid_kwargs=None, cell_map=None):
        self.spec = spec
        self.kw = dict(kw)
        self.ident = ident or {}
        self.pre_calls = pre_calls or []
        self.relabel_loads_between = relabel_loads_between
        self.build_kwargs = build_kwargs or {}
        self.row_map = row_map        # (table, index in A) -> index in this run (for B)
        self.edit_fn = edit_fn        # optional: net -> None, applied after build (symbolic edits)
        self.fluid_kwargs = fluid_kwargs or {}
        self.cell_map = cell_map
        self.havoc_xform = None
        self.pre_tag = None          # symbol family of earlier calls (None: one family per call)
        self.x_xform = None
        self.name_map = None
        self.signs = None           # unknown key "kind|name" -> -1 for sign-flipped coordinates


LOAD_TABLES = ("sink", "source", "mass_storage")


def _run(rs, names_out):
    import pandapipes as pp
    is_gas = rs.spec["fluid"] != "water"
    H.CTX.ident = rs.ident
    H.CTX.havoc_xform, H.CTX.x_xform, H.CTX.name_map = rs.havoc_xform, rs.x_xform, rs.name_map
    net, names = nets.build(rs.spec, nets.sym_valuer(), fluid=stubs.make_sym_fluid(is_gas, **rs.fluid_kwargs),
                            ident=rs.ident, **rs.build_kwargs)
    names_out.update(names)
    if rs.edit_fn is not None:
        rs.edit_fn(net)
    if getattr(rs, "late_ident", None):
        H.CTX.ident = rs.late_ident      # labels changed by the edit: identity through the new labels
    if rs.pre_calls:
        # earlier calls of a history run on their own symbol family
        saved = {}
        if rs.relabel_loads_between:
            for tbl in LOAD_TABLES:
                if tbl in net and len(net[tbl]):
                    saved[tbl] = net[tbl]["mdot_kg_per_s"].copy()
                    vals = np.empty(len(net[tbl]), dtype=object)
                    for i, ix in enumerate(net[tbl].index):
                        nm = nets.sym_name(tbl, "mdot_kg_per_s", rs.ident.get(tbl, {}).get(ix, ix)) + "@first"
                        vals[i] = real(nm)
                        names_out[nm] = names.get(nm[:-6], 0.3) * 0.5
                        if ENG.witness is not None:
                            ENG.witness.setdefault(nm, names_out[nm])
                    net[tbl]["mdot_kg_per_s"] = vals
        for ci, kw in enumerate(rs.pre_calls):
            kw = dict(kw)
            fail = kw.pop("_fail", False)
            sol = kw.pop("_sol_vec_from_pit", False)
            toggle = kw.pop("_toggle", None)       # (table, row position): out of service for this call only
            if toggle is not None:
                tcol = "opened" if toggle[0] == "valve" else "in_service"
                tix = net[toggle[0]].index[toggle[1]]
                told = net[toggle[0]].at[tix, tcol]
                net[toggle[0]].at[tix, tcol] = False
            tag = ("@c%d" % ci if len(rs.pre_calls) > 1 else "@first") if rs.pre_tag is None else rs.pre_tag
            H.CTX.sym_tag, H.CTX.xtag = tag, tag
            H.CTX.force_fail = bool(fail)
            stubs.CTX.sys_base = len(stubs.CTX.systems)
            try:
                pp.pipeflow(net, **kw)
            except Exception as e:     # a failed earlier call is part of the history
                if not expected_exc(e):
                    raise
            finally:
                H.CTX.sym_tag, H.CTX.xtag = "", ""
                H.CTX.force_fail = False
                if toggle is not None:
                    net[toggle[0]].at[tix, tcol] = told
        for tbl, col in saved.items():
            net[tbl]["mdot_kg_per_s"] = col
    n_pre = len(stubs.CTX.systems)
    stubs.CTX.sys_base = n_pre
    kw = dict(rs.kw)
    if kw.pop("_sol_vec_from_pit", False):
        from pandapipes.idx_node import PINIT
        from pandapipes.idx_branch import MDOTINIT
        kw["sol_vec"] = np.concatenate((net["_pit"]["node"][:, PINIT], net["_pit"]["branch"][:, MDOTINIT]))
    pp.pipeflow(net, **kw)
    return net, n_pre


def default_cells(neta, netb, row_map=None):
    """pairs (label, cellA, cellB) of all result cells"""
    out = []
    for key in sorted(k for k in neta.keys() if isinstance(k, str) and k.startswith("res_")):
        ta = neta[key]
        tb_ = netb[key] if key in netb else None
        if tb_ is None or not hasattr(ta, "columns"):
            continue
        tbl = key[4:]
        for ix in ta.index:
            jx = row_map(tbl, ix) if row_map else ix
            if jx is None or jx not in tb_.index:
                continue
            for col in ta.columns:
                if col not in tb_.columns:
                    continue
                out.append(("%s.%s[%s]" % (key, col, ix), ta.at[ix, col], tb_.at[jx, col]))
    return out


def system_obligations(sa, sb, label, signs=None, compare_j=True, subset=False):
    """entry-by-entry equality of two captured systems, matched by unknown identity.  subset: B's unknowns are a subset
    of A's (B describes a part of A that is decoupled from the rest): B's block of A's system equals B's system and A has
    no entry that couples the block to the rest"""
    obs = []
    if sa.get("x") is None:       # fixed-point mode: no update unknowns were created
        return _b_obligations(sa, sb, label, signs)
    xa, xb = sa.get("xnames"), sb.get("xnames")
    if xa is None or xb is None:
        return obs, ["system without identity names"]
    # strip the stage counter/tag: dx<k>[kind|name] -> kind|name
    ka = [n.split("[", 1)[1][:-1] for n in xa]
    kb = [n.split("[", 1)[1][:-1] for n in xb]
    if subset:
        if not set(kb) <= set(ka):
            return obs, ["unknowns of the part that the whole does not have: %s" % sorted(set(kb) - set(ka))[:4]]
        pos_a = {k: i for i, k in enumerate(ka)}
        inb = set(kb)
        ea, eb = sa["entries"], sb["entries"]
        seen = set()
        for (rb, cb), w in eb.items():
            ra_, ca_ = pos_a[kb[rb]], pos_a[kb[cb]]
            seen.add((ra_, ca_))
            obs.append(("%s J[%s, %s]" % (label, kb[rb], kb[cb]), ea.get((ra_, ca_), 0.0), w))
        for (ra_, ca_), v in ea.items():
            if (ka[ra_] in inb) != (ka[ca_] in inb):
                obs.append(("%s J[%s, %s] couples the part to the rest" % (label, ka[ra_], ka[ca_]), v, 0.0))
            elif ka[ra_] in inb and (ra_, ca_) not in seen:
                obs.append(("%s J[%s, %s]" % (label, ka[ra_], ka[ca_]), v, 0.0))
        for rb in range(sb["n"]):
            obs.append(("%s b[%s]" % (label, kb[rb]), sa["b"][pos_a[kb[rb]]], sb["b"][rb]))
        return obs, []
    if sorted(ka) != sorted(kb):
        return obs, ["unknown sets differ: only in A %s, only in B %s" % (sorted(set(ka) - set(kb))[:4],
                                                                          sorted(set(kb) - set(ka))[:4])]
    pos_b = {k: i for i, k in enumerate(kb)}
    ea, eb = sa["entries"], sb["entries"]
    zero = 0.0
    seen = set()
    sg = lambda k: (signs or {}).get(k, 1)     # noqa
    for (r, c), v in (ea.items() if compare_j else []):
        rb, cb = pos_b[ka[r]], pos_b[ka[c]]
        seen.add((rb, cb))
        w = eb.get((rb, cb), zero)
        obs.append(("%s J[%s, %s]" % (label, ka[r], ka[c]), v, w * (sg(ka[r]) * sg(ka[c]))))
    for (rb, cb), w in (eb.items() if compare_j else []):
        if (rb, cb) not in seen:
            obs.append(("%s J[%s, %s]" % (label, kb[rb], kb[cb]), zero, w))
    for r in range(sa["n"]):
        obs.append(("%s b[%s]" % (label, ka[r]), sa["b"][r], sb["b"][pos_b[ka[r]]] * sg(ka[r])))
    return obs, []


def _b_obligations(sa, sb, label, signs):
    """residual rows only (fixed-point mode): rows are matched by unknown identity"""
    def keys(s):
        nn, bn = s["node_names"], s["branch_names"]
        if s.get("heat"):
            return ["T|" + a for a in nn] + ["Tout|" + a for a in bn]
        k = ["p|" + a for a in nn] + ["m|" + a for a in bn]
        return k + ["msl|#%d" % i for i in range(s["n"] - len(k))]
    ka, kb = keys(sa), keys(sb)
    if sorted(ka) != sorted(kb):
        return [], ["unknown sets differ: only in A %s, only in B %s" % (sorted(set(ka) - set(kb))[:4],
                                                                         sorted(set(kb) - set(ka))[:4])]
    pos_b = {k: i for i, k in enumerate(kb)}
    sg = lambda k: (signs or {}).get(k, 1)     # noqa
    return [("%s b[%s]" % (label, ka[r]), sa["b"][r], sb["b"][pos_b[ka[r]]] * sg(ka[r])) for r in range(sa["n"])], []


def equiv_worker(job, ra, rb, fp_prefix, replay_kind, witnesses_fn=None, cells_fn=None, max_cands=3,
                 compare_systems=True, extra_assumptions=None, start_state_fn=None, replay_extra=None,
                 fixed_point=False):
    spec = ra.spec
    names = {}
    holder = {}

    def run_a():
        return _run(ra, names)

    def run_b():
        return _run(rb, names)

    H.CTX.ident = ra.ident
    _, nm0 = nets.build(ra.spec, nets.sym_valuer(), ident=ra.ident, **ra.build_kwargs)
    _, nm1 = nets.build(rb.spec, nets.sym_valuer(), ident=rb.ident, **rb.build_kwargs)
    nm0.update(nm1)
    A = list(stubs.named_constants()[1]) + nets.admissibility(nm0) + list(extra_assumptions or [])
    stubs.CTX.spsolve_mode = 'free'
    H.CTX.fixed = set()
    ex0 = H.explore_witnesses(run_a, [H.Witness(dict(nm0, **names))], A)
    p0 = ex0.paths[0]
    if p0.exc is not None and not p0.systems:
        # A fails before assembling anything: B must fail alike
        exb = H.explore_witnesses(run_b, [H.Witness(dict(nm0, **names))], A)
        same = exb.paths[0].exc is not None and type(exb.paths[0].exc) is type(p0.exc)
        errs = [] if same and expected_exc(p0.exc) else ["A raised %r, B %r" % (p0.exc, exb.paths[0].exc)]
        viol0 = []
        if not same:
            # the two descriptions do not even fail alike: a candidate for the replay on the real code
            viol0.append({"fingerprint": fp_prefix + "/outcome", "detail": {"job": job["name"], "A": repr(p0.exc), "B": repr(exb.paths[0].exc)},
                          "replay": dict({"kind": replay_kind, "spec": ra.spec, "specB": rb.spec, "values": {},
                                          "numba": job.get("numba"), "pfmode": job.get("pfmode")}, **(replay_extra or {}))})
        return finish_worker(job, ex0, viol0, errors=errs, note=repr(p0.exc))
    H.CTX.fixed = H.discover_fixed(p0.systems)
    for (kind, _nm), (_init, symname) in p0.havoc.items():
        if kind == "p":
            A.append(z3.Real(symname) > -1)
        elif kind in ("T", "Tout"):
            A.append(z3.Real(symname) > 0)
    base = dict(nm0, **names)
    ws = witnesses_fn(base, p0, job) if witnesses_fn else [H.Witness(dict(base)), H.Witness(dict(base), kinds={"m": -0.6})]
    viol, errs = [], []
    validated = 0
    # fixed-point mode: both descriptions are evaluated at the same state with a zero update; the
    # residual rows (not the Jacobians) and the reported values are compared
    stubs.CTX.spsolve_mode = 'fixed_point' if fixed_point else 'free'
    npaths = 0
    exa_all = H.Exploration()
    for wi, w in enumerate(ws):
        wa = H.Witness(dict(w), kinds=w.kinds)
        exa = H.explore_witnesses(run_a, [wa], A)
        pa = exa.paths[0]
        wb = H.Witness(dict(pa.witness), kinds=w.kinds)      # same state and same update as run A
        wb.pop("__singular__", None)
        exb = H.explore_witnesses(run_b, [wb], A)
        pb = exb.paths[0]
        npaths += 2
        exa_all.paths += [pa, pb]
        if pa.exc is not None or pb.exc is not None:
            if (pa.exc is None) != (pb.exc is None) or type(pa.exc) is not type(pb.exc):
                viol.append({"fingerprint": fp_prefix + "/outcome",
                             "detail": {"job": job["name"], "A": repr(pa.exc), "B": repr(pb.exc)},
                             "replay": dict({"kind": replay_kind, "spec": spec, "specB": rb.spec, "values": {},
                                             "numba": job.get("numba"), "pfmode": job.get("pfmode")}, **(replay_extra or {}))})
            elif not expected_exc(pa.exc):
                errs.append("both runs raised %r" % (pa.exc,))
            continue
        (neta, na_pre), (netb, nb_pre) = pa.value, pb.value
        # encoding validation (first witness, plain A description): rows and results of the symbolic run evaluated at the
        # witness vs. a float run of the real code from the same state
        def _plain(r_):
            return not r_.pre_calls and r_.edit_fn is None and not r_.ident and not r_.fluid_kwargs and r_.havoc_xform is None \
                and r_.x_xform is None and not r_.name_map
        side = (ra, pa, neta) if _plain(ra) else (rb, pb, netb) if _plain(rb) else None
        if wi == 0 and side is not None and not os.environ.get("SVX_NO_VALIDATE"):
            import copy as _copy
            rv, pside, nside = side
            pv = _copy.copy(pside)
            pv.value = nside
            saved_ctx = (H.CTX.ident, H.CTX.havoc_xform, H.CTX.x_xform, H.CTX.name_map)
            H.CTX.ident, H.CTX.havoc_xform, H.CTX.x_xform, H.CTX.name_map = rv.ident, None, None, None
            try:
                nv, badv = H.validate_against_impl(rv.spec, pv, rv.kw, rv.spec["fluid"] != "water", build_kwargs=rv.build_kwargs,
                                                   fixed_point=fixed_point)
                validated += 1 if nv else 0
                errs += ["encoding validation: %s" % b_ for b_ in badv[:3]]
            except Exception as e:   # noqa
                errs.append("encoding validation raised %r" % (e,))
            finally:
                H.CTX.ident, H.CTX.havoc_xform, H.CTX.x_xform, H.CTX.name_map = saved_ctx
        # hypotheses: assumptions, both paths, A's linear-solve contract
        hy = list(A) + pa.facts + pb.facts + pa.path + pb.path + pa.assumed + pb.assumed + pa.defined + pb.defined
        hy_lin = hy + (pa.lin if not fixed_point else [])
        bad = H.reach_by_witness(pa) if not fixed_point else []
        if bad:
            errs.append("witness %d does not satisfy A's hypotheses: %s" % (wi, D._short(bad[0], 160)))
            # the solver cannot decide this path; the nominal point still goes to the replay as a candidate
            # (a VIOLATION is only printed if the real code reproduces a difference there)
            viol.append({"fingerprint": fp_prefix + "/undecided-path", "detail": {"job": job["name"], "why": "witness outside hypotheses"},
                         "replay": dict({"kind": replay_kind, "spec": spec, "specB": rb.spec, "values": {},
                                         "numba": job.get("numba"), "pfmode": job.get("pfmode")}, **(replay_extra or {}))})
        obs = []
        if compare_systems:
            sysa, sysb = pa.systems[na_pre:], pb.systems[nb_pre:]
            if compare_systems == "heat":
                # only the thermal systems of the two runs correspond (e.g. mode "heat" vs. mode "sequential")
                sysa, sysb = [s_ for s_ in sysa if s_.get("heat")], [s_ for s_ in sysb if s_.get("heat")]
            if len(sysa) != len(sysb):
                viol.append({"fingerprint": fp_prefix + "/nsystems", "detail": {"A": len(sysa), "B": len(sysb)},
                             "replay": dict({"kind": replay_kind, "spec": spec, "specB": rb.spec, "values": {},
                                             "numba": job.get("numba"), "pfmode": job.get("pfmode")}, **(replay_extra or {}))})
            for k, (sa, sb) in enumerate(zip(sysa, sysb)):
                o, e = system_obligations(sa, sb, "system %d" % k, signs=rb.signs, subset=(compare_systems == "subset"))
                for msg in e:
                    # the two descriptions do not even have the same unknowns: a candidate like any other
                    viol.append({"fingerprint": fp_prefix + "/system/unknowns", "detail": {"job": job["name"], "what": msg},
                                 "replay": dict({"kind": replay_kind, "spec": spec, "specB": rb.spec, "values": {},
                                                 "numba": job.get("numba"), "pfmode": job.get("pfmode"), "what": msg},
                                                **(replay_extra or {}))})
                obs += [("system", lab, a, b) for lab, a, b in o]
        cells = cells_fn(neta, netb) if cells_fn else default_cells(neta, netb, rb.row_map)
        obs += [("result", lab, a, b) for lab, a, b in cells]
        for kind, lab, a, b in obs:
            fp = "%s/%s/%s" % (fp_prefix, kind, lab.split("[")[0].split(" ")[-1] if kind == "result" else lab.split(" ")[2][0])
            if sum(1 for v in viol if v["fingerprint"] == fp) >= max_cands:
                continue
            na_, nb_ = is_nan(a), is_nan(b)
            if na_ or nb_:
                D.STATS.obligations += 1
                if na_ and nb_:
                    D.STATS.rewriter += 1
                    continue
                goal = None
            else:
                if not isinstance(a, (Sym, int, float, np.floating, np.integer)) or \
                        not isinstance(b, (Sym, int, float, np.floating, np.integer)):
                    D.STATS.obligations += 1
                    if a == b or (a is None and b is None):
                        D.STATS.rewriter += 1
                        continue
                    goal = None
                else:
                    goal = _t(a) == _t(b)
            if goal is not None:
                r, m, how = D.check(hy_lin if kind == "result" else hy, goal, sample="%s %s" % (job["name"], lab),
                                    timeout_ms=4000, witness=(pa.witness, H.witness_funcs()))
            else:
                r, m = 'sat', None
            import os as _os
            if _os.environ.get("SVX_DEBUG") and not (goal is not None and how == 'rewriter'):
                from .evalterm import evaluate as _ev
                try:
                    va, vb = _ev(_t(a), pa.witness, H.witness_funcs()), _ev(_t(b), pa.witness, H.witness_funcs())
                except Exception as _e:
                    va = vb = repr(_e)
                print("DEBUG", kind, lab, r, how if goal is not None else "-", va, vb, flush=True)
                if _os.environ.get("SVX_DUMP") and goal is not None and r == 'unknown':
                    import pickle as _pk
                    _pk.dump((_t(a).sexpr(), _t(b).sexpr(), [h.sexpr() for h in (hy_lin if kind == "result" else hy)]),
                             open("/tmp/dump_%s.pkl" % abs(hash(lab)), "wb"))
                    print("DUMP written for", lab, flush=True)
            if r == 'sat':
                viol.append({"fingerprint": fp, "detail": {"job": job["name"], "what": lab, "witness": wi},
                             "replay": dict({"kind": replay_kind, "spec": spec, "specB": rb.spec,
                                             "values": model_inputs(m, base) if m is not None else {},
                                             "numba": job.get("numba"), "pfmode": job.get("pfmode"), "what": lab},
                                            **(replay_extra or {}))})
            elif r == 'unknown':
                job.setdefault("_inconclusive", []).append(lab)
    H.CTX.ident = {}
    stubs.CTX.spsolve_mode = 'free'
    return finish_worker(job, exa_all, viol, errors=errs, validated=validated)


def max_result_gap(neta, netb, row_map=None, rtol_floor=1e-12, cols_skip=()):
    """largest relative difference over all corresponding result cells of two concrete nets"""
    worst, where = 0.0, None
    for lab, a, b in default_cells(neta, netb, row_map):
        if any(lab.split("[")[0].endswith(c) for c in cols_skip):
            continue
        try:
            an, bn = (a is None or math.isnan(a)), (b is None or math.isnan(b))
        except TypeError:
            continue
        if an or bn:
            if an != bn and 1.0 > worst:
                worst, where = 1.0, lab + " (nan-ness)"
            continue
        gap = abs(a - b) / (1.0 + abs(a) + abs(b))
        if gap > worst:
            worst, where = gap, "%s: %r vs %r" % (lab, a, b)
    return worst, where
