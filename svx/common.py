"""helpers shared by the checks"""
import math

import numpy as np
import z3

from .sym import Sym, _t, ENG
from . import discharge as D

BRANCH_TABLES = [
    ("pipe", "from_junction", "to_junction"), ("valve", None, None), ("pump", "from_junction", "to_junction"),
    ("circ_pump_pressure", "return_junction", "flow_junction"),
    ("circ_pump_mass", "return_junction", "flow_junction"),
    ("compressor", "from_junction", "to_junction"), ("press_control", "from_junction", "to_junction"),
    ("flow_control", "from_junction", "to_junction"), ("heat_exchanger", "from_junction", "to_junction"),
    ("heat_consumer", "from_junction", "to_junction"),
]


def is_nan(x):
    if isinstance(x, Sym):
        return False
    if x is None:
        return True
    try:
        return math.isnan(x)
    except TypeError:
        return False


def cell_term(x):
    return _t(x)


def branch_tables(net):
    """(table, from-col, to-col) of the junction-to-junction branch tables present in net"""
    out = []
    for tbl, f, t in BRANCH_TABLES:
        if tbl not in net or not len(net[tbl]):
            continue
        if tbl == "valve":
            # only junction-junction valves are branches of their own
            continue
        out.append((tbl, f, t))
    return out


def valve_rows(net):
    """junction-junction valves as (index, from junction, to junction)"""
    if "valve" not in net or not len(net.valve):
        return []
    v = net.valve
    return [(ix, int(v.at[ix, "junction"]), int(v.at[ix, "element"])) for ix in v.index
            if v.at[ix, "et"] == "ju"]


def branch_rows(net):
    """(table, index, from junction, to junction) for every junction-to-junction branch element;
    valves attached to pipes (et='pi') are not branches of their own (the pipe is)"""
    rows = []
    for tbl, f, t in branch_tables(net):
        df = net[tbl]
        for ix in df.index:
            rows.append((tbl, ix, int(df.at[ix, f]), int(df.at[ix, t])))
    for ix, fj, tj in valve_rows(net):
        rows.append(("valve", ix, fj, tj))
    return rows


def node_load_tables(net):
    """(table, sign): sign +1 = counts as consumption at its junction"""
    out = []
    for tbl, sg in (("sink", 1), ("source", -1), ("mass_storage", 1), ("ext_grid", 1)):
        if tbl in net and len(net[tbl]):
            out.append((tbl, sg))
    return out


def concrete_pipeflow(net, **kw):
    import pandapipes as pp
    import warnings
    try:
        with warnings.catch_warnings():
            warnings.simplefilter("ignore")
            pp.pipeflow(net, **kw)
        return True, None
    except Exception as e:   # noqa
        return False, "%s: %s" % (type(e).__name__, e)


def model_inputs(model, names, extra_prefixes=()):
    """values of the named inputs in a z3 model (others keep their defaults in the replay)"""
    if model is None:
        return {}
    if isinstance(model, dict):
        return {k: v for k, v in model.items() if k in names or (extra_prefixes and k.startswith(tuple(extra_prefixes)))}
    out = {}
    for d in model.decls():
        if d.arity() != 0:
            continue
        n = d.name()
        if n in names or n.startswith(tuple(extra_prefixes)) if extra_prefixes else n in names:
            v = model[d]
            try:
                if z3.is_rational_value(v):
                    fr = v.as_fraction()
                    out[n] = fr.numerator / fr.denominator
                elif z3.is_algebraic_value(v):
                    fr = v.approx(20).as_fraction()
                    out[n] = fr.numerator / fr.denominator
            except Exception:
                pass
    return out


def finish_worker(job, ex, violations, errors=None, note=None, validated=0, evaluated=0):
    st = D.STATS
    paths = len(ex.paths) if ex is not None else 0
    r = {
        "paths": paths,
        "feas_queries": ex.nqueries if ex is not None else 0,
        "obligations": st.obligations, "rewriter": st.rewriter, "z3_unsat": st.z3_unsat,
        "cvc5_unsat": st.cvc5_unsat, "unknown": st.unknown, "queries": st.queries,
        "solver_s": st.solver_s + (ex.solver_s if ex is not None else 0.0),
        "reach_checked": st.reach_checked, "reach_failed": st.reach_failed,
        "cvc5_cross": st.cvc5_cross, "cvc5_disagree": st.cvc5_disagree, "cvc5_agree": st.cvc5_agree,
        "samples": st.samples[:2], "violations": violations, "errors": list(errors or []),
        "inconclusive": list(job.get("_inconclusive", [])), "validated": validated,
        "evaluated": evaluated,
        "truncated": bool(ex is not None and ex.truncated),
    }
    if note:
        r["note"] = note
    return r


# ------------------------------------------------------------------------------------------------
def expected_exc(e):
    from pandapipes.pf.pipeflow_setup import PipeflowNotConverged
    return isinstance(e, (PipeflowNotConverged, UserWarning))


def pipeflow_worker(job, pipeflow_kwargs, oblig_fn, fixed_point=False, witnesses_fn=None,
                    validate=2, cols=None, extra_assumptions_fn=None, build_kwargs=None,
                    fluid_kwargs=None, max_cands=3, fork_paths=16, allow_exc=expected_exc,
                    prepare_fn=None):
    """generic worker: symbolic pipeflow on job['spec'], obligations from
    oblig_fn(net, p, names, job) -> iterable of dicts(label, goal, fp, hyps_min(optional),
    replay(optional dict merged into the replay payload))"""
    from . import harness as H, nets, stubs
    import pandapipes as pp
    spec = job["spec"]
    numba = bool(job.get("numba"))
    patched, ass = H.install(numba_pyfunc=numba)
    if prepare_fn is not None:
        prepare_fn(job)
    is_gas = spec["fluid"] != "water"
    kw = dict(pipeflow_kwargs)
    kw["use_numba"] = numba
    bkw = dict(build_kwargs or {})
    if cols is not None:
        bkw["cols"] = cols

    def run():
        net, names = nets.build(spec, nets.sym_valuer(), fluid=stubs.make_sym_fluid(is_gas, **(fluid_kwargs or {})),
                                **bkw)
        pp.pipeflow(net, **kw)
        return net

    _, names = nets.build(spec, nets.sym_valuer(), **bkw)
    A = list(ass) + nets.admissibility(names)
    if extra_assumptions_fn is not None:
        A += list(extra_assumptions_fn(names, job))
    stubs.CTX.spsolve_mode = 'free'
    H.CTX.fixed = set()
    ex0 = H.explore_witnesses(run, [H.Witness(dict(names))], A)
    p0 = ex0.paths[0]
    if p0.exc is not None and not p0.systems:
        errs = [] if allow_exc(p0.exc) else ["first path raised %r" % (p0.exc,)]
        return finish_worker(job, ex0, [], errors=errs, note=repr(p0.exc))
    H.CTX.fixed = H.discover_fixed(p0.systems)
    # admissible states: absolute pressures and temperatures of the arbitrary pre-state positive
    for (kind, _nm), (_init, symname) in p0.havoc.items():
        if kind == "p":
            A.append(z3.Real(symname) > -1)
        elif kind in ("T", "Tout"):
            A.append(z3.Real(symname) > 0)
    stubs.CTX.spsolve_mode = 'fixed_point' if fixed_point else 'free'
    try:
        if job.get("mode") == "fork":
            ex = H.explore(run, A, max_paths=fork_paths, feas_timeout_ms=1000)
        else:
            ws = witnesses_fn(names, p0, job) if witnesses_fn else [H.Witness(dict(names))]
            ex = H.explore_witnesses(run, ws, A)
    finally:
        stubs.CTX.spsolve_mode = 'free'
    viol, verr, validated = [], [], 0
    if validate and not fixed_point:
        for pi, p in enumerate(ex.paths[:validate]):
            if p.witness is not None and p.exc is None:
                n, bad = H.validate_against_impl(spec, p, kw, is_gas, build_kwargs=bkw)
                validated += 1 if n else 0
                verr += ["encoding validation, path %d: %s" % (pi, b) for b in bad[:3]]
    nonvac = 0
    for pi, p in enumerate(ex.paths):
        if p.exc is not None:
            if not allow_exc(p.exc):
                verr.append("path %d raised %r" % (pi, p.exc))
            continue
        if p.witness is not None and not fixed_point:
            bad = H.reach_by_witness(p)
            if bad:
                verr.append("path %d: witness does not satisfy hypothesis %s" % (pi, D._short(z3.simplify(bad[0]), 200)))
            nonvac += 1
        else:
            nonvac += 1
        hy_full = p.hyps()
        for ob in oblig_fn(p.value, p, names, job):
            fp = ob["fp"]
            if sum(1 for v in viol if v["fingerprint"] == fp) >= max_cands:
                continue
            hy_min = ob.get("hyps_min")
            if fixed_point or p.witness is None:
                # reachability twin on the hypothesis set this obligation actually uses: a path
                # selected by a witness that is not a fixed point may contradict `b = 0`; such a
                # path proves nothing and is skipped (counted, never reported as discharged)
                r0, _m = D.reachable(hy_min if hy_min is not None else hy_full, timeout_ms=3000)
                if r0 == 'unsat':
                    D.STATS.reach_failed -= 1
                    job["_vacuous"] = job.get("_vacuous", 0) + 1
                    continue
                job["_nonvacuous"] = job.get("_nonvacuous", 0) + 1
            r, m, how = D.check(hy_min if hy_min is not None else hy_full, ob["goal"],
                                sample="%s path %d %s" % (job["name"], pi, ob["label"]),
                                timeout_ms=ob.get("timeout_ms"),
                                witness=(p.witness, H.witness_funcs()) if (p.witness is not None and not fixed_point) else None)
            if how == 'witness':
                hy_min = None
            if r == 'sat' and hy_min is not None:
                r2, m2, _ = D.check(hy_full, ob["goal"], timeout_ms=5000)
                if r2 == 'unsat':
                    r = 'unsat'
                elif r2 == 'sat':
                    m = m2
            if r == 'sat':
                rp = {"spec": spec, "numba": numba, "label": ob["label"], "pipeflow_kwargs": pipeflow_kwargs,
                      "values": model_inputs(m, names)}
                rp.update(ob.get("replay", {}))
                viol.append({"fingerprint": fp, "detail": {"job": job["name"], "obligation": ob["label"], "path": pi},
                             "replay": rp})
            elif r == 'unknown':
                job.setdefault("_inconclusive", []).append("%s path %d" % (ob["label"], pi))
    if fixed_point and job.get("_vacuous") and not job.get("_nonvacuous"):
        verr.append("every obligation of this structure was vacuous under the fixed-point hypotheses")
    if job.get("_vacuous"):
        job.setdefault("_inconclusive", []).append("%d obligations skipped on paths that contradict the "
                                                   "fixed-point hypotheses" % job["_vacuous"])
    return finish_worker(job, ex, viol, errors=verr, validated=validated)


def own_row(p, table, index, sec=0, which=-1, heat=False):
    """constraint `b_row == 0` / row equation of the branch element's own row in the captured system"""
    name = "%s:%s:%d" % (table, index, sec)
    syss = [s for s in p.systems if (s["mode"] == "heat") == heat] or p.systems
    s = syss[which]
    r = len(s["node_names"]) + s["branch_names"].index(name)
    return s["cons"][r]


def base_hyps(p):
    """assumptions + facts + path + definedness (no linear-system rows)"""
    return p.hyps(lin=False)
