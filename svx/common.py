"""helpers shared by the checks"""
import math

import numpy as np
import z3

from .sym import Sym, _t, ENG
from . import discharge as D

BRANCH_TABLES = [
    ("pipe", "from_junction", "to_junction"), ("valve", None, None), ("pump", "from_junction", "to_junction"),
    ("circ_pump_pressure", "return_junction", "flow_junction"),
    ("circ_pump_mass", "return_junction", "flow_junction"),
    ("compressor", "from_junction", "to_junction"), ("press_control", "from_junction", "to_junction"),
    ("flow_control", "from_junction", "to_junction"), ("heat_exchanger", "from_junction", "to_junction"),
    ("heat_consumer", "from_junction", "to_junction"),
]


def is_nan(x):
    if isinstance(x, Sym):
        return False
    if x is None:
        return True
    try:
        return math.isnan(x)
    except TypeError:
        return False


def cell_term(x):
    return _t(x)


def branch_tables(net):
    """(table, from-col, to-col) of the junction-to-junction branch tables present in net"""
    out = []
    for tbl, f, t in BRANCH_TABLES:
        if tbl not in net or not len(net[tbl]):
            continue
        if tbl == "valve":
            # only junction-junction valves are branches of their own
            continue
        out.append((tbl, f, t))
    return out


def valve_rows(net):
    """junction-junction valves as (index, from junction, to junction)"""
    if "valve" not in net or not len(net.valve):
        return []
    v = net.valve
    return [(ix, int(v.at[ix, "junction"]), int(v.at[ix, "element"])) for ix in v.index
            if v.at[ix, "et"] == "ju"]


def branch_rows(net):
    """(table, index, from junction, to junction) for every junction-to-junction branch element;
    valves attached to pipes (et='pi') are not branches of their own (the pipe is)"""
    rows = []
    for tbl, f, t in branch_tables(net):
        df = net[tbl]
        for ix in df.index:
            rows.append((tbl, ix, int(df.at[ix, f]), int(df.at[ix, t])))
    for ix, fj, tj in valve_rows(net):
        rows.append(("valve", ix, fj, tj))
    return rows


def node_load_tables(net):
    """(table, sign): sign +1 = counts as consumption at its junction"""
    out = []
    for tbl, sg in (("sink", 1), ("source", -1), ("mass_storage", 1), ("ext_grid", 1)):
        if tbl in net and len(net[tbl]):
            out.append((tbl, sg))
    return out


def concrete_pipeflow(net, **kw):
    import pandapipes as pp
    import warnings
    try:
        with warnings.catch_warnings():
            warnings.simplefilter("ignore")
            pp.pipeflow(net, **kw)
        return True, None
    except Exception as e:   # noqa
        return False, "%s: %s" % (type(e).__name__, e)


def model_inputs(model, names, extra_prefixes=()):
    """values of the named inputs in a z3 model (others keep their defaults in the replay)"""
    if model is None:
        return {}
    out = {}
    for d in model.decls():
        if d.arity() != 0:
            continue
        n = d.name()
        if n in names or n.startswith(tuple(extra_prefixes)) if extra_prefixes else n in names:
            v = model[d]
            try:
                if z3.is_rational_value(v):
                    fr = v.as_fraction()
                    out[n] = fr.numerator / fr.denominator
                elif z3.is_algebraic_value(v):
                    fr = v.approx(20).as_fraction()
                    out[n] = fr.numerator / fr.denominator
            except Exception:
                pass
    return out


def finish_worker(job, ex, violations, errors=None, note=None, validated=0, evaluated=0):
    st = D.STATS
    paths = len(ex.paths) if ex is not None else 0
    r = {
        "paths": paths,
        "feas_queries": ex.nqueries if ex is not None else 0,
        "obligations": st.obligations, "rewriter": st.rewriter, "z3_unsat": st.z3_unsat,
        "cvc5_unsat": st.cvc5_unsat, "unknown": st.unknown, "queries": st.queries,
        "solver_s": st.solver_s + (ex.solver_s if ex is not None else 0.0),
        "reach_checked": st.reach_checked, "reach_failed": st.reach_failed,
        "cvc5_cross": st.cvc5_cross, "cvc5_disagree": st.cvc5_disagree,
        "samples": st.samples[:2], "violations": violations, "errors": list(errors or []),
        "inconclusive": list(job.get("_inconclusive", [])), "validated": validated,
        "evaluated": evaluated,
        "truncated": bool(ex is not None and ex.truncated),
    }
    if note:
        r["note"] = note
    return r
