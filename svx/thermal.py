"""shared pieces of the thermal checks (C10, C11): a symbolic sequential / bidirectional run at the exact
fixed point (update = 0, residual rows = 0 available as hypotheses) and access to the thermal state"""
import numpy as np
import z3

from . import harness as H, nets, stubs, discharge as D
from .sym import Sym, _t, ENG, EXP, real


class ThermalState:
    """state of the thermal stage on one path: node / branch temperatures and flows by identity name,
    the captured thermal system (rows by name)"""

    def __init__(self, net, p):
        from pandapipes.idx_node import TINIT, INFEED, NODE_TYPE_T, PINIT, HEIGHT, PAMB
        from pandapipes.idx_branch import TOUTINIT, MDOTINIT, FROM_NODE, TO_NODE, FROM_NODE_T_SWITCHED
        self.net, self.p = net, p
        npit, bpit = net["_pit"]["node"], net["_pit"]["branch"]
        nn = H._pit_row_names(net, "node", npit)
        bn = H._pit_row_names(net, "branch", bpit)
        self.T = {n: npit[i, TINIT] for i, n in enumerate(nn)}
        self.P = {n: npit[i, PINIT] for i, n in enumerate(nn)}
        self.HGT = {n: npit[i, HEIGHT] for i, n in enumerate(nn)}
        self.PAMB = {n: npit[i, PAMB] for i, n in enumerate(nn)}
        self.brow = {b: i for i, b in enumerate(bn)}
        self.Tout = {b: bpit[i, TOUTINIT] for i, b in enumerate(bn)}
        self.m = {b: bpit[i, MDOTINIT] for i, b in enumerate(bn)}
        self.fn = {b: nn[int(bpit[i, FROM_NODE])] for i, b in enumerate(bn)}
        self.tn = {b: nn[int(bpit[i, TO_NODE])] for i, b in enumerate(bn)}
        self.switched = {b: bool(bpit[i, FROM_NODE_T_SWITCHED]) for i, b in enumerate(bn)}
        self.bpit, self.bn, self.npit, self.nn = bpit, bn, npit, nn
        heat = [s for s in p.systems if s.get("heat")]
        self.sys = heat[-1] if heat else None
        self.rows = {}
        if self.sys is not None:
            s = self.sys
            names = ["T|" + a for a in s["node_names"]] + ["Tout|" + a for a in s["branch_names"]]
            for r, nm in enumerate(names):
                self.rows[nm] = (s["b"][r], s["cons"][r])
        hyd = [s for s in p.systems if not s.get("heat")]
        self.hyd_rows = {}
        if hyd:
            s = hyd[-1]
            names = ["p|" + a for a in s["node_names"]] + ["m|" + a for a in s["branch_names"]]
            for r, nm in enumerate(names):
                self.hyd_rows[nm] = (s["b"][r], s["cons"][r])
        self.active_nodes = set(self.sys["node_names"]) if self.sys else set()
        self.active_branches = set(self.sys["branch_names"]) if self.sys else set()

    def upstream(self, b):
        return self.tn[b] if self.switched[b] else self.fn[b]

    def downstream(self, b):
        return self.fn[b] if self.switched[b] else self.tn[b]


def cp_uf():
    return z3.Function("cp", z3.RealSort(), z3.RealSort())


def cbar(ta, tb):
    cp = cp_uf()
    return (cp(_t(ta)) + cp(_t(tb))) / 2


def absz(t):
    return z3.If(t >= 0, t, -t)


def exp_args(term):
    """arguments of all exp applications in a term"""
    out, seen, stack = [], set(), [term]
    while stack:
        e = stack.pop()
        if e.get_id() in seen:
            continue
        seen.add(e.get_id())
        if z3.is_app(e) and e.decl().name() == "exp" and e.num_args() == 1:
            out.append(e.arg(0))
        stack.extend(e.children())
    return out


EXP0 = EXP(z3.RealVal(0)) == 1


def thermal_worker(job, oblig_fn, meta_prefix, pfkw=None, witnesses_fn=None, build_kwargs=None, fluid_kwargs=None):
    """symbolic run at the exact fixed point; obligations from oblig_fn(ThermalState, names, job)"""
    from .common import finish_worker, expected_exc, model_inputs
    import pandapipes as pp
    spec = job["spec"]
    numba = bool(job.get("numba"))
    patched, ass = H.install(numba_pyfunc=numba)
    kw = dict(mode=job.get("pfmode", "sequential"), use_numba=numba)
    kw.update(pfkw or {})
    bkw = dict(build_kwargs or {})

    def run():
        net, names = nets.build(spec, nets.sym_valuer(), fluid=stubs.make_sym_fluid(spec["fluid"] != "water", **(fluid_kwargs or {})), **bkw)
        if job.get("pre_run"):
            # an earlier calculation on the same net object with other options (the examined call must not see it)
            pre = {k: (real(v[4:]) if isinstance(v, str) and v.startswith("sym:") else v) for k, v in job["pre_run"].items()}
            pp.pipeflow(net, use_numba=numba, **pre)
        pp.pipeflow(net, **kw)
        return net
    _, names = nets.build(spec, nets.sym_valuer(), **bkw)
    A = list(ass) + nets.admissibility(names) + [EXP0]
    stubs.CTX.spsolve_mode = 'free'
    H.CTX.fixed = set()
    ex0 = H.explore_witnesses(run, [H.Witness(dict(names))], A)
    p0 = ex0.paths[0]
    if p0.exc is not None and not p0.systems:
        return finish_worker(job, ex0, [], errors=[] if expected_exc(p0.exc) else ["first path raised %r" % (p0.exc,)])
    H.CTX.fixed = H.discover_fixed(p0.systems)
    for (kind, _nm), (_init, symname) in p0.havoc.items():
        if kind == "p":
            A.append(z3.Real(symname) > -1)
        elif kind in ("T", "Tout"):
            A.append(z3.Real(symname) > 0)
    stubs.CTX.spsolve_mode = 'fixed_point'
    try:
        ws = witnesses_fn(names, p0, job) if witnesses_fn else [H.Witness(dict(names))]
        if not fluid_kwargs:
            # second path: the state of a converged float run of the real code (physical flow directions)
            wp = H.physical_witness(spec, names, kw, spec["fluid"] != "water", build_kwargs=bkw)
            if wp is not None:
                ws = list(ws) + [wp]
        ex = H.explore_witnesses(run, ws, A)
    finally:
        stubs.CTX.spsolve_mode = 'free'
    viol, errs = [], []
    validated = 0
    for pi, p in enumerate(ex.paths[:1]):
        # encoding validation: rows and results of the symbolic run at the witness vs a float run of the real code
        if p.exc is None and p.witness is not None and not fluid_kwargs and not job.get("pre_run"):
            nv, badv = H.validate_against_impl(spec, p, kw, False if spec["fluid"] == "water" else True, build_kwargs=bkw,
                                               fixed_point=True)
            validated += 1 if nv else 0
            errs += ["encoding validation, path %d: %s" % (pi, b_) for b_ in badv[:3]]
    for pi, p in enumerate(ex.paths):
        if p.exc is not None:
            if not expected_exc(p.exc):
                errs.append("path %d raised %r" % (pi, p.exc))
            continue
        st = ThermalState(p.value, p)
        base = list(A) + p.facts + p.path + p.assumed + p.defined
        for ob in oblig_fn(st, names, job):
            fp = ob["fp"]
            if sum(1 for v in viol if v["fingerprint"] == fp) >= 3:
                continue
            hy = base + list(ob.get("rows", []))
            if ob.get("rows"):
                r0, _ = D.reachable(hy, timeout_ms=3000)
                if r0 == 'unsat':
                    D.STATS.reach_failed -= 1
                    job["_vacuous"] = job.get("_vacuous", 0) + 1
                    continue
            r, m, how = D.check(hy, ob["goal"], sample="%s path %d %s" % (job["name"], pi, ob["label"]),
                                timeout_ms=ob.get("timeout_ms", 8000),
                                witness=(p.witness, H.witness_funcs()) if not (ob.get("rows") or ob.get("use_facts")) else None)
            if r == 'sat':
                rp = {"spec": spec, "numba": numba, "label": ob["label"], "pfmode": kw["mode"],
                      "values": model_inputs(m, names), "pre_run": job.get("pre_run"),
                      "pfkw": {k: v for k, v in (pfkw or {}).items() if isinstance(v, (int, float, str, bool))}}
                rp.update(ob.get("replay", {}))
                viol.append({"fingerprint": fp, "detail": {"job": job["name"], "obligation": ob["label"], "path": pi},
                             "replay": rp})
            elif r == 'unknown':
                job.setdefault("_inconclusive", []).append("%s path %d" % (ob["label"], pi))
    if job.get("_vacuous"):
        job.setdefault("_inconclusive", []).append("%d obligations skipped on paths that contradict their row hypotheses"
                                                   % job["_vacuous"])
    return finish_worker(job, ex, viol, errors=errs, validated=validated)
