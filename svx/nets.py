"""Structure specs -> pandapipes nets (symbolic or concrete).

A *spec* is a picklable dict:
  {"fluid": "water"|"gas", "nj": 3, "jl": [labels] (optional), "jis": [bool] (optional),
   "elems": [ {"t": "pipe", "f": 0, "to": 1, "sections": 2, ...}, ... ]}
Junction references in elems are *positions* 0..nj-1 which are mapped through "jl".
`build(spec, valuer)` creates the net through the real create_* API with concrete default numbers
and then replaces every numeric input listed in SYM_COLS by `valuer(name, default)`:
a `Sym` for symbolic runs, a float for replays.  Names are `<table>.<col>[<identity>]`.
"""
import numpy as np
import pandas as pd

import pandapipes as pp

from .sym import real, Sym

SYM_COLS = {
    "junction": ["pn_bar", "tfluid_k", "height_m"],
    "ext_grid": ["p_bar", "t_k"],
    "sink": ["mdot_kg_per_s", "scaling"],
    "source": ["mdot_kg_per_s", "scaling"],
    "mass_storage": ["mdot_kg_per_s", "scaling"],
    "pipe": ["length_km", "inner_diameter_mm", "outer_diameter_mm", "k_mm", "loss_coefficient",
             "u_w_per_m2k", "text_k", "qext_w"],
    "valve": ["inner_diameter_mm", "loss_coefficient"],
    "circ_pump_pressure": ["p_flow_bar", "plift_bar", "t_flow_k"],
    "circ_pump_mass": ["p_flow_bar", "mdot_flow_kg_per_s", "t_flow_k"],
    "compressor": ["pressure_ratio"],
    "press_control": ["controlled_p_bar", "loss_coefficient"],
    "flow_control": ["controlled_mdot_kg_per_s", "inner_diameter_mm"],
    "heat_exchanger": ["inner_diameter_mm", "qext_w", "loss_coefficient"],
    "heat_consumer": ["controlled_mdot_kg_per_s", "qext_w", "deltat_k", "treturn_k",
                      "inner_diameter_mm"],
    "pump": [],
}

DEFAULTS = {"pn_bar": 5.0, "tfluid_k": 300.0}


def jlabel(spec, pos):
    jl = spec.get("jl")
    return int(jl[pos]) if jl else int(pos)


def build_concrete(spec):
    """net with default numbers, real create API"""
    fluid = "water" if spec.get("fluid", "water") == "water" else spec.get("gasname", "lgas")
    net = pp.create_empty_network(fluid=fluid)
    nj = spec["nj"]
    # nominal loads: small for gases (a 100 mm pipe at 5 bar chokes at a few 0.1 kg/s)
    qs = 1.0 if spec.get("fluid", "water") == "water" else 0.08
    jis = spec.get("jis") or [True] * nj
    jh = spec.get("jh") or [0.0] * nj
    order = spec.get("jorder") or list(range(nj))
    for pos in order:
        pp.create_junction(net, pn_bar=5.0 + 0.1 * pos, tfluid_k=300.0 + pos, height_m=float(jh[pos]),
                           index=jlabel(spec, pos), in_service=bool(jis[pos]))
    for k, e in enumerate(spec["elems"]):
        e = dict(e)
        t = e.pop("t")
        idx = e.pop("index", None)
        ins = e.pop("in_service", True)
        J = lambda key: jlabel(spec, e.pop(key))   # noqa
        if t == "ext_grid":
            pp.create_ext_grid(net, J("j"), p_bar=e.pop("p_bar", 5.0), t_k=e.pop("t_k", 330.0),
                               type=e.pop("type", "pt"), in_service=ins, index=idx)
        elif t in ("sink", "source"):
            getattr(pp, "create_" + t)(net, J("j"), mdot_kg_per_s=e.pop("mdot", (0.3 + 0.1 * k) * qs),
                                       scaling=e.pop("scaling", 1.0), in_service=ins, index=idx)
        elif t == "mass_storage":
            pp.create_mass_storage(net, J("j"), mdot_kg_per_s=e.pop("mdot", 0.2 * qs), scaling=e.pop("scaling", 1.0),
                                   in_service=ins, index=idx)
        elif t == "pipe":
            pp.create_pipe_from_parameters(
                net, J("f"), J("to"), length_km=e.pop("length_km", 0.4 + 0.1 * k),
                inner_diameter_mm=e.pop("d_mm", 100.0), k_mm=e.pop("k_mm", 0.1),
                loss_coefficient=e.pop("zeta", 0.0), sections=e.pop("sections", 1),
                u_w_per_m2k=e.pop("u", 0.0), text_k=e.pop("text_k", 283.0), qext_w=e.pop("qext_w", 0.0),
                outer_diameter_mm=e.pop("do_mm", None),
                in_service=ins, index=idx)
        elif t == "valve":
            et = e.pop("et", "ju")
            j = J("j")
            el = e.pop("el")
            el = jlabel(spec, el) if et == "ju" else el
            pp.create_valve(net, j, el, et, inner_diameter_mm=e.pop("d_mm", 100.0),
                            opened=e.pop("opened", True), loss_coefficient=e.pop("zeta", 0.3), index=idx)
        elif t == "pump":
            pp.create_pump(net, J("f"), J("to"), std_type=e.pop("std_type", "P1"), in_service=ins,
                           index=idx)
        elif t == "circ_pump_pressure":
            pp.create_circ_pump_const_pressure(net, J("ret"), J("flow"), p_flow_bar=e.pop("p_flow", 6.0),
                                               plift_bar=e.pop("plift", 1.5), t_flow_k=e.pop("t_flow", 350.0),
                                               in_service=ins, index=idx, type=e.pop("type", "auto"))
        elif t == "circ_pump_mass":
            pp.create_circ_pump_const_mass_flow(net, J("ret"), J("flow"), p_flow_bar=e.pop("p_flow", 6.0),
                                                mdot_flow_kg_per_s=e.pop("mdot", 1.2),
                                                t_flow_k=e.pop("t_flow", 350.0), in_service=ins, index=idx,
                                                type=e.pop("type", "auto"))
        elif t == "compressor":
            pp.create_compressor(net, J("f"), J("to"), pressure_ratio=e.pop("ratio", 1.3), in_service=ins,
                                 index=idx)
        elif t == "press_control":
            f, to = J("f"), J("to")
            cj = jlabel(spec, e.pop("cj")) if "cj" in e else to
            pp.create_pressure_control(net, f, to, cj, controlled_p_bar=e.pop("p", 4.0),
                                       control_active=e.pop("control_active", True),
                                       loss_coefficient=e.pop("zeta", 0.0), in_service=ins, index=idx)
        elif t == "flow_control":
            pp.create_flow_control(net, J("f"), J("to"), controlled_mdot_kg_per_s=e.pop("mdot", 0.4 * qs),
                                   control_active=e.pop("control_active", True), in_service=ins, index=idx)
        elif t == "heat_exchanger":
            pp.create_heat_exchanger(net, J("f"), J("to"), qext_w=e.pop("qext_w", 5000.0),
                                     inner_diameter_mm=e.pop("d_mm", 100.0), loss_coefficient=e.pop("zeta", 0.5),
                                     in_service=ins, index=idx)
        elif t == "heat_consumer":
            pp.create_heat_consumer(net, J("f"), J("to"), qext_w=e.pop("qext_w", None),
                                    controlled_mdot_kg_per_s=e.pop("mdot", None),
                                    deltat_k=e.pop("deltat_k", None), treturn_k=e.pop("treturn_k", None),
                                    in_service=ins, index=idx)
        else:
            raise ValueError("unknown element type %s" % t)
        if e:
            raise ValueError("unused keys %s in %s" % (e, t))
    perm = spec.get("row_perm")
    if perm:
        for tbl, p in perm.items():
            if tbl in net and len(net[tbl]) == len(p):
                net[tbl] = net[tbl].iloc[list(p)]
    return net


def sym_name(tbl, col, ident):
    return "%s.%s[%s]" % (tbl, col, ident)


def apply_valuer(net, valuer, cols=None, ident=None, skip=()):
    """replace numeric inputs by valuer(name, default); returns {name: default}"""
    names = {}
    cols = cols or SYM_COLS
    for tbl, cl in cols.items():
        if tbl not in net or not len(net[tbl]):
            continue
        df = net[tbl]
        for col in cl:
            if col not in df or (tbl, col) in skip:
                continue
            old = df[col].values
            vals = np.empty(len(df), dtype=object)
            anysym = False
            for i, ix in enumerate(df.index):
                o = old[i]
                if o is None or (isinstance(o, float) and np.isnan(o)):
                    vals[i] = np.nan      # NaN-ness is structure
                    continue
                key = (ident or {}).get(tbl, {}).get(ix, ix)
                nm = sym_name(tbl, col, key)
                v = valuer(nm, float(o))
                names[nm] = float(o)
                vals[i] = v
                anysym = anysym or isinstance(v, Sym)
            if anysym or df[col].dtype == object:
                df[col] = pd.Series(vals, index=df.index, dtype=object)
            else:
                df[col] = pd.Series(np.array([float(v) for v in vals]), index=df.index)
        if tbl == "pipe" and "outer_diameter_mm" in df and df["inner_diameter_mm"].dtype == object:
            df["outer_diameter_mm"] = pd.Series(df["outer_diameter_mm"].values.astype(object),
                                                index=df.index, dtype=object)
    return names


def sym_valuer(tag=""):
    def v(name, default):
        return real(name + tag)
    return v


def concrete_valuer(values):
    def v(name, default):
        return float(values.get(name, default))
    return v


def build(spec, valuer=None, cols=None, ident=None, skip=(), fluid=None):
    net = build_concrete(spec)
    names = {}
    if valuer is not None:
        names = apply_valuer(net, valuer, cols=cols, ident=ident, skip=skip)
    if fluid is not None:
        net.fluid = fluid
    return net, names


# ---- physical-admissibility assumptions on the named inputs -------------------------------------
def admissibility(names, extra=None):
    """z3 assumptions: lengths, diameters, roughness > 0, scaling >= 0, temperatures > 0 ..."""
    import z3
    out = []
    for nm in names:
        col = nm.split(".", 1)[1].split("[", 1)[0]
        v = z3.Real(nm)
        if col in ("length_km", "inner_diameter_mm", "outer_diameter_mm", "k_mm", "tfluid_k", "t_k",
                   "text_k", "t_flow_k", "treturn_k", "pressure_ratio"):
            out.append(v > 0)
        elif col in ("loss_coefficient", "u_w_per_m2k", "scaling"):
            out.append(v >= 0)
        elif col in ("p_bar", "pn_bar", "p_flow_bar", "controlled_p_bar"):
            out.append(v > -1)       # absolute pressure positive
    return out + list(extra or [])
