"""Numeric evaluation of z3 terms with *true* interpretations of the uninterpreted functions
(used for encoding validation and for building replay inputs)."""
import math

import z3


class EvalError(Exception):
    pass


DEFAULT_FUNCS = {
    "log10": lambda a: math.log10(a),
    "ln": lambda a: math.log(a),
    "exp": lambda a: math.exp(a),
    "sqrt": lambda a: math.sqrt(a),
    "pow": lambda a, b: math.pow(a, b),
}


def evaluate(t, env, funcs=None, cache=None):
    """env: name -> float for Real constants; funcs: name -> python callable for UFs"""
    funcs = funcs or DEFAULT_FUNCS
    cache = {} if cache is None else cache

    def ev(e):
        i = e.get_id()
        if i in cache:
            return cache[i]
        r = _ev(e)
        cache[i] = r
        return r

    def _ev(e):
        if z3.is_rational_value(e):
            fr = e.as_fraction()
            return fr.numerator / fr.denominator
        if z3.is_true(e):
            return True
        if z3.is_false(e):
            return False
        k = e.decl().kind()
        ch = e.children()
        if k == z3.Z3_OP_UNINTERPRETED:
            name = e.decl().name()
            if not ch:
                try:
                    return env[name]
                except KeyError:
                    raise EvalError("no value for %s" % name)
            if name not in funcs:
                raise EvalError("no function for %s" % name)
            return funcs[name](*[ev(c) for c in ch])
        if k == z3.Z3_OP_ADD:
            return sum(ev(c) for c in ch)
        if k == z3.Z3_OP_MUL:
            r = 1.0
            for c in ch:
                r *= ev(c)
            return r
        if k == z3.Z3_OP_SUB:
            r = ev(ch[0])
            for c in ch[1:]:
                r -= ev(c)
            return r
        if k == z3.Z3_OP_UMINUS:
            return -ev(ch[0])
        if k == z3.Z3_OP_DIV:
            d = ev(ch[1])
            if d == 0:
                raise EvalError("division by zero")
            return ev(ch[0]) / d
        if k == z3.Z3_OP_POWER:
            return math.pow(ev(ch[0]), ev(ch[1]))
        if k == z3.Z3_OP_ITE:
            return ev(ch[1]) if ev(ch[0]) else ev(ch[2])
        if k == z3.Z3_OP_LE:
            return ev(ch[0]) <= ev(ch[1])
        if k == z3.Z3_OP_LT:
            return ev(ch[0]) < ev(ch[1])
        if k == z3.Z3_OP_GE:
            return ev(ch[0]) >= ev(ch[1])
        if k == z3.Z3_OP_GT:
            return ev(ch[0]) > ev(ch[1])
        if k == z3.Z3_OP_EQ:
            return ev(ch[0]) == ev(ch[1])
        if k == z3.Z3_OP_DISTINCT:
            vals = [ev(c) for c in ch]
            return len(set(vals)) == len(vals)
        if k == z3.Z3_OP_NOT:
            return not ev(ch[0])
        if k == z3.Z3_OP_AND:
            return all(ev(c) for c in ch)
        if k == z3.Z3_OP_OR:
            return any(ev(c) for c in ch)
        if k == z3.Z3_OP_IMPLIES:
            return (not ev(ch[0])) or ev(ch[1])
        if k == z3.Z3_OP_TO_REAL:
            return float(ev(ch[0]))
        raise EvalError("unsupported op %s" % e.decl().name())

    return ev(t)


def model_env(model, names=None):
    """name -> float for all Real constants in the model"""
    env = {}
    for d in model.decls():
        if d.arity() != 0:
            continue
        v = model[d]
        if z3.is_rational_value(v):
            fr = v.as_fraction()
            env[d.name()] = fr.numerator / fr.denominator
        elif z3.is_algebraic_value(v):
            fr = v.approx(30).as_fraction()
            env[d.name()] = fr.numerator / fr.denominator
    return env
