exec(open('p7.py').read().split("def one_path(prefix):")[0])
import logging; logging.disable(logging.CRITICAL)
from pandapipes.idx_node import TINIT as TINIT_N
_orig_nr = pf.newton_raphson; _orig_fin = pf.finalize_iteration
def havoc(net, mode):
    k = mode
    if mode == 'hydraulics':
        anp, abp = net._active_pit['node'], net._active_pit['branch']
        for i in range(len(anp)):
            if anp[i, NODE_TYPE] != P: anp[i, PINIT] = real('p_%d' % i)
            else: anp[i, MDOTSLACKINIT] = real('msl_%d' % i)
        for b in range(len(abp)): abp[b, MDOTINIT] = real('m_%d' % b)
    elif mode == 'heat':
        anp, abp = net._active_pit['node'], net._active_pit['branch']
        for i in range(len(anp)): anp[i, TINIT_N] = real('T_%d' % i)
        for b in range(len(abp)): abp[b, TOUTINIT] = real('To_%d' % b)
def nr(net, funct, mode, solver_vars, tols, pit_names, iter_name):
    havoc(net, mode); net._options[iter_name] = 1
    return _orig_nr(net, funct, mode, solver_vars, tols, pit_names, iter_name)
def fin(net, niter, residual_norm, nonlinear_method, errors, tols, tol_res, vals_old, solver_vars, pit_names, filtered):
    net.converged = True     # stub: verdict assumed; checked separately (C05)
pf.newton_raphson = nr; pf.finalize_iteration = fin
ENG.assumptions += [z3.Real('m_%d'%b) > 1e-3 for b in range(5)]
def one_path(prefix):
    ENG.reset_path(prefix); ENG.defined = []; XS.clear()
    net = build()
    pp.pipeflow(net, mode='sequential', use_numba=False)
    return net
t00 = time.time(); n = 0; ENG.pending.append([])
while ENG.pending:
    prefix = ENG.pending.pop(); net = one_path(prefix); n += 1
    if n == 1:
        pd.set_option('display.width', 250); pd.set_option('display.max_colwidth', 70)
        print(net.res_junction); print(net.res_heat_consumer[['mdot_from_kg_per_s','qext_w','deltat_k']]); print(net.res_circ_pump_pressure[['mdot_from_kg_per_s','deltat_k']])
        print(net.converged, len(XS))
print("paths", n, "%.1fs" % (time.time()-t00), "queries", ENG.nqueries)
