import sys, warnings, time; warnings.filterwarnings('ignore'); sys.path.insert(0,'/tmp/probe')
import numpy as np, z3
from sym import *; from sym import _t as R
import pandapipes as pp
from pandapipes.properties.fluids import call_lib
fl = call_lib("water")
prop = fl.all_properties["density"]
f = prop.prop_getter
print(type(f), f.x[:4], f.y[:4], f._extrapolate if hasattr(f,'_extrapolate') else None, f.fill_value)
outs = []; ENG.pending[:] = [[]]
t0 = time.time()
while ENG.pending:
    pre = ENG.pending.pop(); ENG.reset_path(pre)
    x = real('T')
    try:
        y = f._evaluate(np.array([x], dtype=object))
        outs.append((list(ENG.path), y))
    except Exception as e:
        print("ERR", type(e), e); break
print(len(outs), "paths %.2fs" % (time.time()-t0), ENG.nqueries)
for pc, y in outs[:3]: print([z3.simplify(p) for p in pc][-2:], y)
