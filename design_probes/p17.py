exec(open("p9.py").read().rsplit("\ndef one_path(prefix):", 1)[0])
# bidirectional: havoc both hydraulic and thermal unknowns on the *full* pit (solve_bidirectional reduces each iteration)
from pandapipes.idx_node import TINIT as TN
def havoc_bi(net):
    npit, bpit = net._pit['node'], net._pit['branch']
    for i in range(len(npit)):
        if npit[i, NODE_TYPE] != P: npit[i, PINIT] = real('p_%d' % i)
        else: npit[i, MDOTSLACKINIT] = real('msl_%d' % i)
        npit[i, TN] = real('T_%d' % i)
    for b in range(len(bpit)):
        bpit[b, MDOTINIT] = real('m_%d' % b); bpit[b, TOUTINIT] = real('To_%d' % b)
def nr(net, funct, mode, solver_vars, tols, pit_names, iter_name):
    if mode == 'bidirectional': havoc_bi(net)
    else: havoc(net, mode)
    net._options[iter_name] = 1
    return _orig_nr(net, funct, mode, solver_vars, tols, pit_names, iter_name)
pf.newton_raphson = nr
FIX = []
def fp_spsolve(A, b):
    FIX.append([R(v) == 0 for v in b])
    XS.append((A, b, None, None))
    out = np.empty(A.shape[0], dtype=object); out[...] = 0.0
    return out
pf.spsolve = fp_spsolve
def one_path(prefix):
    ENG.reset_path(prefix); ENG.defined = []; XS.clear(); FIX.clear()
    net = build()
    try:
        pp.pipeflow(net, mode='bidirectional', use_numba=False); return net, None
    except Exception as e:
        return net, e
t00 = time.time(); n = 0; ENG.pending.append([]); outc = {}
while ENG.pending:
    prefix = ENG.pending.pop(); net, e = one_path(prefix); n += 1
    k = 'ok' if e is None else type(e).__name__ + ':' + str(e)[:60]; outc[k] = outc.get(k, 0) + 1
    if e is None and outc[k] == 1:
        print(net.res_heat_consumer[['mdot_from_kg_per_s','qext_w']]); print(len(XS), "linear solves")
print("paths", n, "%.1fs" % (time.time()-t00), outc)
