import sys, warnings, time, importlib; warnings.filterwarnings('ignore'); sys.path.insert(0, '/tmp/probe')
import numpy as np, z3
import pandapipes
from sym import *; from sym import _t as R
import snp as S
tb = importlib.import_module("pandapipes.pf.derivative_toolbox"); tbn = importlib.import_module("pandapipes.pf.derivative_toolbox_numba")
S.install(); tbn.np = S.snp; import builtins; tbn.bool = builtins.bool
from numba.core.registry import CPUDispatcher
for k, v in list(vars(tbn).items()):
    if isinstance(v, CPUDispatcher): setattr(tbn, k, v.py_func)
from pandapipes.idx_branch import *
from pandapipes.idx_node import TINIT as TN, node_cols
n, nb = 3, 2
fn = np.array([0, 1], dtype=np.int32); tn = np.array([1, 2], dtype=np.int32)
def mk():
    bp = np.empty((nb, branch_cols), dtype=object); bp[...] = 0.0
    for i in range(nb):
        for c, nm in [(MDOTINIT,'m'),(LENGTH,'L'),(TEXT,'text'),(ALPHA,'al'),(DO,'do'),(TL,'tl'),(QEXT,'q'),(AREA,'A'),(TOUTINIT,'to')]: bp[i, c] = real('%s%d'%(nm,i))
        bp[i, FROM_NODE] = fn[i]; bp[i, TO_NODE] = tn[i]
    npit = np.empty((n, node_cols), dtype=object); npit[...] = 0.0
    for i in range(n): npit[i, TN] = real('T%d'%i)
    ti = npit[fn, TN]; ti1 = bp[:, TOUTINIT]; tnt = npit[tn, TN]; tnn = npit[:, TN]
    cpn = np.array([real('cpn%d'%i) for i in range(nb)], dtype=object); cpb = np.array([real('cpb%d'%i) for i in range(nb)], dtype=object)
    rho = np.array([real('rho%d'%i) for i in range(nb)], dtype=object)
    lk = -np.ones(24, dtype=np.int32); lk[TOUTINIT] = 0; lkn = -np.ones(16, dtype=np.int32); lkn[TN] = 0
    old_b = np.empty((nb,1), dtype=object); old_b[...] = 0.0; old_n = np.empty((n,1), dtype=object); old_n[...] = 0.0
    return (npit, bp, old_n, lkn, old_b, lk, fn, tn, ti, ti1, tnt, tnn, cpn, cpb, rho, None, np.bool_(False), real('amb'))
def run_all(fn_):
    outs = []; ENG.pending[:] = [[]]
    while ENG.pending:
        pre = ENG.pending.pop(); ENG.reset_path(pre); ENG.defined = []
        o = fn_(*mk()); outs.append((list(ENG.path), o))
    return outs
ENG.assumptions += [z3.Real('cpb%d'%i) > 0 for i in range(nb)]
t0 = time.time()
o_np = run_all(tb.derivatives_thermal_np); o_nb = run_all(tbn.derivatives_thermal_numba)
print("paths", len(o_np), len(o_nb), "%.1fs" % (time.time()-t0))
names = "fn dfn_dt fnt dfnt_dt dfnt_dtout fb dfb_dt dfb_dtout infeed".split()
nq = 0; bad = []
for pc1, o1 in o_np:
    for pc2, o2 in o_nb:
        s = z3.Solver(); s.set('timeout', 10000); s.add(*ENG.assumptions); s.add(*pc1); s.add(*pc2)
        if str(s.check()) == 'unsat': continue
        for nm, a, b in zip(names, o1, o2):
            if nm == 'infeed':
                a_set = set(int(v) for v in a); b_set = set(int(i) for i, v in enumerate(b) if v)
                nq += 1
                if a_set != b_set: bad.append((nm, a_set, b_set))
                continue
            for i in range(len(a)):
                d = z3.simplify(R(a[i]) - R(b[i]), som=True); nq += 1
                if z3.is_rational_value(d) and d.as_fraction() == 0: continue
                s.push(); s.add(R(a[i]) != R(b[i])); r = s.check(); s.pop()
                if str(r) != 'unsat': bad.append((nm, i, str(r)))
print("obligations", nq, "mismatches", len(bad), bad[:5])
