import sys, warnings, time, importlib; warnings.filterwarnings('ignore')
sys.path.insert(0, '/tmp/probe'); sys.path.insert(0, __import__('os').path.dirname(__import__('os').path.abspath(__file__)))
import numpy as np, pandas as pd, z3
import pandapipes as pp
from sym import *; from sym import _t as R
import snp as S
pf = importlib.import_module("pandapipes.pipeflow"); bsm = importlib.import_module("pandapipes.pf.build_system_matrix")
pfs = importlib.import_module("pandapipes.pf.pipeflow_setup")
from scipy.sparse import coo_matrix as _coo
from pandapipes.properties import fluids as FL
from pandapipes.idx_node import PINIT, MDOTSLACKINIT, NODE_TYPE, P, LOAD, PAMB, HEIGHT, TINIT
from pandapipes.idx_branch import *
import logging; logging.disable(logging.CRITICAL)

def symcol(df, col, prefix):
    vals = np.empty(len(df), dtype=object)
    for i, ix in enumerate(df.index): vals[i] = real("%s_%s" % (prefix, ix))
    df[col] = pd.Series(vals, index=df.index, dtype=object)

class SymMatrix:
    def __init__(self, arg, shape=None):
        data, (rows, cols) = arg
        self.shape = shape; self.entries = {}
        for d, r, c in zip(data, rows, cols):
            self.entries[(int(r), int(c))] = self.entries.get((int(r), int(c)), 0) + d
XS = []
def sym_spsolve(A, b):
    n = A.shape[0]; k = len(XS); x = np.array([real('x%d_%d' % (k, i)) for i in range(n)], dtype=object)
    cons = []
    for r in range(n):
        lhs = 0
        for (rr, c), v in A.entries.items():
            if rr == r: lhs = lhs + v * x[c]
        cons.append(R(lhs) == R(b[r]))
    XS.append((A, b, x, cons)); return x
_orig_get = FL.FluidPropertyInterExtra.get_at_value
_ufs = {}
def _get_at_value(self, arg):
    def one(v):
        if isinstance(v, Sym):
            uf = _ufs.setdefault(id(self), z3.Function('prop%d' % len(_ufs), z3.RealSort(), z3.RealSort()))
            return Sym(uf(v.t))
        return float(self.prop_getter(float(v)))
    if isinstance(arg, np.ndarray) and arg.dtype == object:
        out = np.empty(arg.shape, dtype=object)
        for i, v in np.ndenumerate(arg): out[i] = one(v)
        return out
    if isinstance(arg, Sym): return one(arg)
    return _orig_get(self, arg)
def coo_wrap(arg, shape=None):
    data, ij = arg; return _coo((np.asarray(data).astype(float), ij), shape=shape)

def build():
    net = pp.create_empty_network(fluid="water")
    j = [pp.create_junction(net, pn_bar=5, tfluid_k=293.15, height_m=0.) for _ in range(3)]
    pp.create_ext_grid(net, j[0], p_bar=5, t_k=293.15)
    pp.create_pipe_from_parameters(net, j[0], j[1], length_km=1., inner_diameter_mm=100, k_mm=0.1, sections=2)
    pp.create_pipe_from_parameters(net, j[1], j[2], length_km=2., inner_diameter_mm=100, k_mm=0.1)
    pp.create_sink(net, j[2], mdot_kg_per_s=1.)
    pp.create_sink(net, j[1], mdot_kg_per_s=0.5)
    symcol(net.junction, 'pn_bar', 'pn'); symcol(net.junction, 'height_m', 'h'); symcol(net.ext_grid, 'p_bar', 'peg')
    symcol(net.pipe, 'length_km', 'L'); symcol(net.pipe, 'inner_diameter_mm', 'D'); symcol(net.pipe, 'k_mm', 'k'); symcol(net.pipe, 'outer_diameter_mm', 'Do')
    symcol(net.pipe, 'loss_coefficient', 'zeta'); symcol(net.sink, 'mdot_kg_per_s', 'msink'); symcol(net.sink, 'scaling', 'sc')
    return net

S.install(); bsm.csr_matrix = SymMatrix; pf.spsolve = sym_spsolve; pfs.coo_matrix = coo_wrap
FL.FluidPropertyInterExtra.get_at_value = _get_at_value
ENG.assumptions += [z3.Real('%s_%d'%(v,i)) > 0 for i in range(2) for v in 'DLk'] + [z3.Real('zeta_%d'%i) >= 0 for i in range(2)]

def one_path(prefix):
    ENG.reset_path(prefix); ENG.defined = []; XS.clear()
    net = build()
    pfs.init_options(net, use_numba=False); pfs.init_all_result_tables(net); pfs.create_lookups(net); pfs.initialize_pit(net)
    pfs.identify_active_nodes_branches(net); pfs.reduce_pit(net, mode="hydraulics"); net["_internal_data"] = dict()
    anp, abp = net._active_pit['node'], net._active_pit['branch']
    pre = {}
    for i in range(len(anp)):
        if anp[i, NODE_TYPE] != P: anp[i, PINIT] = real('p_%d' % i)
        else: anp[i, MDOTSLACKINIT] = real('msl_%d' % i)
        pre[i] = R(anp[i, PINIT])
    for b in range(len(abp)): abp[b, MDOTINIT] = real('m_%d' % b)
    pf.solve_hydraulics(net)
    return net, anp, abp, pre

t00 = time.time(); npaths = 0; results = []
ENG.pending.append([])
while ENG.pending:
    prefix = ENG.pending.pop()
    net, anp, abp, pre = one_path(prefix); npaths += 1
    rho = float(net.fluid.get_density(293.15)); eta = float(net.fluid.get_viscosity(293.15))
    viol = []; flowing = []
    for b in range(len(abp)):
        f, t_ = int(abp[b, FROM_NODE]), int(abp[b, TO_NODE])
        m = z3.Real('m_%d' % b); d, L, k, zeta, A = [R(abp[b, c]) for c in (D, LENGTH, K, LOSS_COEFFICIENT, AREA)]
        v = m / (R(rho) * A); absv = z3.If(v >= 0, v, -v); Re = R(rho) * absv * d / R(eta)
        lam = 64 / Re + 1 / ((-2 * LOG10(k / (R(3.71) * d)))**2)
        dh = R(anp[f, HEIGHT]) - R(anp[t_, HEIGHT])
        ploss = R(rho) * R(9.81) * dh - R(rho) * lam * L * v * absv / (2 * d) - zeta * R(rho) * v * absv / 2
        oracle = (pre[f] + R(anp[f, PAMB])) - (pre[t_] + R(anp[t_, PAMB])) + R(abp[b, PL]) + ploss / R(1e5)
        fl = z3.If(Re >= 0, Re, -Re) > R(1e-8)
        viol.append(z3.And(fl, z3.Or(oracle != R(abp[b, LOAD_VEC_BRANCHES]), lam != R(abp[b, LAMBDA]), Re != R(abp[b, RE]))))
    s = z3.Solver(); s.set("timeout", 60000)
    for a in ENG.assumptions + ENG.path + ENG.defined: s.add(a)
    s.add(z3.Or(viol)); t0 = time.time(); r = s.check()
    results.append((prefix, str(r), round(time.time()-t0, 2)))
print("paths", npaths, "total %.1fs" % (time.time()-t00), "queries", ENG.nqueries)
from collections import Counter; print(Counter(r for _, r, _ in results), max(t for *_, t in results))
