exec(open('p7.py').read().split("t00 = time.time(); n = 0; ENG.pending.append([])")[0])
import logging; logging.disable(logging.CRITICAL)
t00 = time.time(); n = 0; ENG.pending.append([]); verdicts = []
cpUF = None
while ENG.pending:
    prefix = ENG.pending.pop(); net, anp, abp, res = one_path(prefix); n += 1
    A, b, x, cons = XS[-1]
    cp = list(_ufs.values())[-1] if cpUF is None else cpUF
    # which UF is cp? find by name through the fluid object
    cp = _ufs[id(net.fluid.all_properties['heat_capacity'])] if id(net.fluid.all_properties['heat_capacity']) in _ufs else None
    if cp is None: continue
    # mixing node = to-node of the heat consumers: find node with 2 inflows
    tabs = pfs.get_lookup(net, 'branch', 'from_to_active_heat_transfer'); f, t = tabs['heat_consumer']
    node = int(abp[f, TO_NODE]); Tn = z3.Real('T_%d' % node)
    hyp = list(ENG.assumptions) + list(ENG.path) + list(ENG.defined) + [R(b[node]) == 0]
    hyp += [cp(z3.Real(v)) > 0 for v in ['T_%d'%i for i in range(4)] + ['To_%d'%i for i in range(5)]]
    s = z3.Solver(); s.set("timeout", 10000); s.add(*hyp)
    reach = str(s.check())
    bal = 0
    for bb in range(f, t):
        To = z3.Real('To_%d' % bb); m = R(abp[bb, MDOTINIT]); absm = z3.If(m >= 0, m, -m)
        bal = bal + (cp(To) + cp(Tn)) / 2 * absm * (To - Tn)
    s.add(bal != 0); r = str(s.check()); verdicts.append((reach, r))
    if r == 'sat' and len(verdicts) == 1:
        mm = s.model(); print("model:", {str(d): mm[d] for d in mm.decls() if str(d).startswith(('T_','To_','mc_'))})
print("paths", n, "%.1fs" % (time.time()-t00))
from collections import Counter; print(Counter(verdicts))
