exec(open('p2.py').read().split("def build():")[0])
import pandapipes.topology as top
topmod = importlib.import_module("pandapipes.topology.create_graph")
import networkx as nx
def build():
    net = pp.create_empty_network(fluid="water")
    j = pp.create_junctions(net, 4, pn_bar=5, tfluid_k=293.15)
    pp.create_ext_grid(net, j[0], p_bar=5, t_k=293.15)
    for a, b in [(0,1),(1,2),(0,2),(2,3),(1,3)]:
        pp.create_pipe_from_parameters(net, j[a], j[b], length_km=1., inner_diameter_mm=100, outer_diameter_mm=100., k_mm=0.1)
    symcol(net.pipe, 'length_km', 'L')
    return net
importlib.import_module("pandapipes.pf.derivative_toolbox"); S.install()
ENG.assumptions += [z3.Real('L_%d'%i) > 0 for i in range(5)]
outs = []; ENG.pending[:] = [[]]; t0 = time.time()
while ENG.pending:
    pre = ENG.pending.pop(); ENG.reset_path(pre)
    net = build()
    d = top.calc_distance_to_junction(net, 0)
    outs.append((list(ENG.path), d))
print(len(outs), "paths %.1fs" % (time.time()-t0), "queries", ENG.nqueries)
# oracle: min over simple paths
g = nx.MultiGraph(); edges = [(0,1),(1,2),(0,2),(2,3),(1,3)]
for i,(a,b) in enumerate(edges): g.add_edge(a,b,key=i)
L = [z3.Real('L_%d'%i) for i in range(5)]
bad = 0; t0=time.time()
for pc, d in outs:
    for tgt in (1,2,3):
        sums = []
        for path in nx.all_simple_edge_paths(g, 0, tgt):
            sums.append(sum(L[k] for (_,_,k) in path))
        s = z3.Solver(); s.set('timeout', 20000); s.add(*ENG.assumptions); s.add(*pc)
        dv = R(d[tgt])
        s.add(z3.Not(z3.And(z3.Or([dv == x for x in sums]), z3.And([dv <= x for x in sums]))))
        if str(s.check()) != 'unsat': bad += 1
print("violations", bad, "%.1fs" % (time.time()-t0))
