exec(open('p2.py').read().split("def build():")[0])
from pandapipes.idx_node import LOAD_T, INFEED, NODE_TYPE_T, T as T_TYPE
def build():
    net = pp.create_empty_network(fluid="water")
    j = [pp.create_junction(net, pn_bar=5, tfluid_k=350.) for _ in range(4)]
    pp.create_circ_pump_const_pressure(net, j[3], j[0], p_flow_bar=5, plift_bar=1, t_flow_k=360.)
    pp.create_pipe_from_parameters(net, j[0], j[1], length_km=1., inner_diameter_mm=100, outer_diameter_mm=100, k_mm=0.1, u_w_per_m2k=5., text_k=283.)
    pp.create_pipe_from_parameters(net, j[2], j[3], length_km=1., inner_diameter_mm=100, outer_diameter_mm=100, k_mm=0.1, u_w_per_m2k=5., text_k=283.)
    pp.create_heat_consumer(net, j[1], j[2], controlled_mdot_kg_per_s=1., qext_w=20000.)
    pp.create_heat_consumer(net, j[1], j[2], controlled_mdot_kg_per_s=0.5, qext_w=10000.)
    symcol(net.pipe, 'length_km', 'L'); symcol(net.pipe, 'u_w_per_m2k', 'u'); symcol(net.pipe, 'text_k', 'text')
    symcol(net.heat_consumer, 'qext_w', 'q'); symcol(net.heat_consumer, 'controlled_mdot_kg_per_s', 'mc')
    symcol(net.circ_pump_pressure, 't_flow_k', 'tflow'); symcol(net.junction, 'tfluid_k', 'tj')
    return net
importlib.import_module("pandapipes.pf.derivative_toolbox"); S.install(); bsm.csr_matrix = SymMatrix; pf.spsolve = sym_spsolve; pfs.coo_matrix = coo_wrap
FL.FluidPropertyInterExtra.get_at_value = _get_at_value
ENG.assumptions += [z3.Real('L_%d'%i) > 0 for i in range(2)] + [z3.Real('u_%d'%i) >= 0 for i in range(2)]
ENG.assumptions += [z3.Real('mc_%d'%i) > 1e-3 for i in range(2)]
def one_path(prefix):
    ENG.reset_path(prefix); ENG.defined = []; XS.clear()
    net = build()
    pfs.init_options(net, use_numba=False, mode='sequential'); pfs.init_all_result_tables(net); pfs.create_lookups(net); pfs.initialize_pit(net)
    pfs.identify_active_nodes_branches(net); pfs.reduce_pit(net, mode="hydraulics"); net["_internal_data"] = dict()
    anp, abp = net._active_pit['node'], net._active_pit['branch']
    # assume a converged hydraulic state with symbolic flows: all branches carry mflow>0 consistent w/ loop
    mloop = z3.Real('mc_0') + z3.Real('mc_1')
    from pandapipes.pf.result_extraction import extract_results_active_pit
    tabs = pfs.get_lookup(net, 'branch', 'from_to_active_hydraulics')
    for tbl, (f, t) in tabs.items():
        for b in range(f, t):
            if tbl == 'heat_consumer': continue   # MDOTINIT already = controlled mdot
            abp[b, MDOTINIT] = Sym(mloop)
    extract_results_active_pit(net, mode="hydraulics")
    pfs.identify_active_nodes_branches(net, False); pfs.reduce_pit(net, mode="heat_transfer")
    anp, abp = net._active_pit['node'], net._active_pit['branch']
    for i in range(len(anp)): anp[i, TINIT] = real('T_%d' % i)
    for b in range(len(abp)): abp[b, TOUTINIT] = real('To_%d' % b)
    res = pf.solve_temperature(net)
    return net, anp, abp, res
t00 = time.time(); n = 0; ENG.pending.append([])
while ENG.pending:
    prefix = ENG.pending.pop(); net, anp, abp, res = one_path(prefix); n += 1
    if n == 1:
        A, b, x, cons = XS[-1]
        print("rows:", A.shape, "infeed", anp[:, INFEED], "types", anp[:, NODE_TYPE_T])
        print("fb[0] =", z3.simplify(R(abp[0, LOAD_VEC_BRANCHES_T])))
        print("node2 load:", z3.simplify(R(b[2])))
print("paths", n, "%.1fs" % (time.time()-t00), "queries", ENG.nqueries)
