exec(open('p2.py').read().split("t00 = time.time()")[0])
# force the all-flowing regime by assumption, so a single path remains
for b in range(3):
    m = z3.Real('m_%d'%b)
    ENG.assumptions.append(z3.Or(m > 1, m < -1))
ENG.assumptions += [z3.Real('D_%d'%i) < 1000 for i in range(2)] + [z3.Real('D_%d'%i) > 10 for i in range(2)]
ENG.pending.append([]); n=0
while ENG.pending:
    prefix = ENG.pending.pop(); net, anp, abp, pre = one_path(prefix); n+=1
    print("path", prefix, len(ENG.path))
    rho = float(net.fluid.get_density(293.15)); eta = float(net.fluid.get_viscosity(293.15))
    for b in range(len(abp)):
        f, t_ = int(abp[b, FROM_NODE]), int(abp[b, TO_NODE])
        m = z3.Real('m_%d' % b); d, L, k, zeta, A = [R(abp[b, c]) for c in (D, LENGTH, K, LOSS_COEFFICIENT, AREA)]
        v = m / (R(rho) * A); absv = z3.If(v >= 0, v, -v); Re = R(rho) * absv * d / R(eta)
        lam = 64 / Re + 1 / ((-2 * LOG10(k / (R(3.71) * d)))**2)
        dh = R(anp[f, HEIGHT]) - R(anp[t_, HEIGHT])
        lamv = z3.Real('lamcut')
        def orc(lam):
            ploss = R(rho) * R(9.81) * dh - R(rho) * lam * L * v * absv / (2 * d) - zeta * R(rho) * v * absv / 2
            return (pre[f] + R(anp[f, PAMB])) - (pre[t_] + R(anp[t_, PAMB])) + R(abp[b, PL]) + ploss / R(1e5)
        for nm, cond in [("Re", Re != R(abp[b, RE])), ("lam", lam != R(abp[b, LAMBDA])), ("F", orc(R(abp[b, LAMBDA])) != R(abp[b, LOAD_VEC_BRANCHES]))]:
            s = z3.Solver(); s.set("timeout", 60000)
            for a in ENG.assumptions + ENG.path + ENG.defined: s.add(a)
            s.add(cond); t0 = time.time(); r = s.check(); print(b, nm, r, "%.2fs" % (time.time()-t0))
            if str(r) == 'sat' and nm == "F":
                mm = s.model()
                print(mm.eval(orc(R(abp[b, LAMBDA])), model_completion=True), mm.eval(R(abp[b, LOAD_VEC_BRANCHES]), model_completion=True))
                print(z3.simplify(orc(R(abp[b, LAMBDA])) - R(abp[b, LOAD_VEC_BRANCHES])))
print(n)
