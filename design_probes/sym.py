"""Throwaway probe: symbolic real scalar living inside numpy object arrays."""
import math, numbers
import numpy as _np
import z3

class Engine:
    def __init__(self):
        self.solver = z3.Solver()
        self.decisions = []     # replay prefix
        self.pos = 0
        self.path = []          # list of z3 bools taken
        self.pending = []       # worklist of decision prefixes
        self.nforks = 0
        self.nqueries = 0
        self.assumptions = []
        self.defined = []
    def reset_path(self, prefix):
        self.decisions = list(prefix); self.pos = 0; self.path = []
    def feasible(self, cond):
        self.nqueries += 1
        self.solver.push()
        for a in self.assumptions: self.solver.add(a)
        for p in self.path: self.solver.add(p)
        self.solver.add(cond)
        r = self.solver.check()
        self.solver.pop()
        return str(r) != 'unsat'
    def branch(self, cond):
        cond = z3.simplify(cond)
        if z3.is_true(cond): return True
        if z3.is_false(cond): return False
        if self.pos < len(self.decisions):
            d = self.decisions[self.pos]; self.pos += 1
            self.path.append(cond if d else z3.Not(cond)); return d
        t = self.feasible(cond); f = self.feasible(z3.Not(cond))
        if t and f:
            self.nforks += 1
            self.pending.append(self.decisions[:self.pos] + [False])
            d = True
        elif t: d = True
        elif f: d = False
        else: raise RuntimeError("infeasible path")
        self.decisions.append(d); self.pos += 1
        self.path.append(cond if d else z3.Not(cond))
        return d

ENG = Engine()

def _t(x):
    if isinstance(x, Sym): return x.t
    if isinstance(x, (bool, _np.bool_)): return z3.RealVal(int(x))
    if isinstance(x, numbers.Integral): return z3.RealVal(int(x))
    if isinstance(x, numbers.Real):
        from fractions import Fraction
        if math.isnan(x) or math.isinf(x): raise ValueError("nan/inf in symbolic arithmetic")
        f = Fraction(float(x)); return z3.RealVal(str(f))  # exact binary value... 
    raise TypeError(type(x))

LOG10 = z3.Function('log10', z3.RealSort(), z3.RealSort())
LN = z3.Function('ln', z3.RealSort(), z3.RealSort())
EXP = z3.Function('exp', z3.RealSort(), z3.RealSort())
SQRT = z3.Function('sqrt', z3.RealSort(), z3.RealSort())
POW = z3.Function('pow', z3.RealSort(), z3.RealSort(), z3.RealSort())

class SymBool:
    __slots__ = ('t',)
    def __init__(self, t): self.t = t
    def __bool__(self): return ENG.branch(self.t)
    def __invert__(self): return SymBool(z3.Not(self.t))
    def __and__(self, o): return SymBool(z3.And(self.t, o.t if isinstance(o, SymBool) else z3.BoolVal(bool(o))))
    __rand__ = __and__
    def __or__(self, o): return SymBool(z3.Or(self.t, o.t if isinstance(o, SymBool) else z3.BoolVal(bool(o))))
    __ror__ = __or__

class Sym:
    __slots__ = ('t',)

    def __init__(self, t): self.t = t
    def __repr__(self): return "<Sym>"
    def __add__(s, o): return Sym(s.t + _t(o))
    def __radd__(s, o): return Sym(_t(o) + s.t)
    def __sub__(s, o): return Sym(s.t - _t(o))
    def __rsub__(s, o): return Sym(_t(o) - s.t)
    def __mul__(s, o): return Sym(s.t * _t(o))
    def __rmul__(s, o): return Sym(_t(o) * s.t)
    def __truediv__(s, o):
        d = _t(o)
        if not z3.is_rational_value(d): ENG.defined.append(d != 0)
        return Sym(s.t / d)
    def __rtruediv__(s, o):
        ENG.defined.append(s.t != 0)
        return Sym(_t(o) / s.t)
    def __neg__(s): return Sym(-s.t)
    def __pos__(s): return s
    def __abs__(s): return Sym(z3.If(s.t >= 0, s.t, -s.t))
    def __pow__(s, o):
        if isinstance(o, numbers.Integral) or (isinstance(o, float) and o.is_integer()):
            n = int(o)
            if n >= 0:
                r = z3.RealVal(1)
                for _ in range(n): r = r * s.t
                return Sym(r)
            r = z3.RealVal(1)
            for _ in range(-n): r = r * s.t
            return Sym(1 / r)
        return Sym(POW(s.t, _t(o)))
    def __rpow__(s, o): return Sym(POW(_t(o), s.t))
    def __lt__(s, o): return SymBool(s.t < _t(o))
    def __le__(s, o): return SymBool(s.t <= _t(o))
    def __gt__(s, o): return SymBool(s.t > _t(o))
    def __ge__(s, o): return SymBool(s.t >= _t(o))
    def __eq__(s, o): return SymBool(s.t == _t(o))
    def __ne__(s, o): return SymBool(s.t != _t(o))
    __hash__ = None
    # numpy object-loop ufunc hooks
    def sqrt(s): return Sym(SQRT(s.t))
    def exp(s): return Sym(EXP(s.t))
    def log(s): return Sym(LN(s.t))
    def log10(s): return Sym(LOG10(s.t))
    def conjugate(s): return s
    def round(s, n=0): return s
    def __round__(s, n=0): return s
    def __float__(s): raise TypeError('symbolic value reached a float() boundary')

def real(name): return Sym(z3.Real(name))

def _guard(f):
    def g(self, o):
        if isinstance(o, _np.ndarray): return NotImplemented
        return f(self, o)
    return g
for _n in ['__add__','__radd__','__sub__','__rsub__','__mul__','__rmul__','__truediv__','__rtruediv__','__pow__','__rpow__','__lt__','__le__','__gt__','__ge__','__eq__','__ne__']:
    setattr(Sym, _n, _guard(getattr(Sym, _n)))
