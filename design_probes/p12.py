exec(open('p2.py').read().split("def build():")[0])
importlib.import_module("pandapipes.pf.derivative_toolbox"); S.install()
import logging; logging.disable(logging.CRITICAL)
from pandapower.auxiliary import ADict
def harness(method, nvars):
    net = ADict(); net["_options"] = {"alpha": real('alpha')}; net["converged"] = False
    svars = ['mdot', 'p', 'mdotslack', 'T'][:nvars]
    errors = {v: [real('e_%s_0' % v), real('e_%s_1' % v)] for v in svars}
    tols = [real('tol_%s' % v) for v in svars]
    n = 3
    net["_active_pit"] = {"branch": np.empty((n, branch_cols), dtype=object), "node": np.empty((n, 18), dtype=object)}
    net["_active_pit"]["branch"][...] = 0.0; net["_active_pit"]["node"][...] = 0.0
    vals_old = [np.array([real('old_%s_%d' % (v, i)) for i in range(n)], dtype=object) for v in svars]
    pit_names = ['branch', 'node', 'node', 'node'][:nvars]; filtered = [None, None, np.array([0]), None][:nvars]
    if nvars >= 3: vals_old[2] = vals_old[2][:1]
    pf.finalize_iteration(net, 1, real('res'), method, errors=errors, tols=tols, tol_res=real('tol_res'),
                          vals_old=vals_old, solver_vars=svars, pit_names=pit_names, filtered=filtered)
    return net, errors, tols
ENG.assumptions += [z3.Real('alpha') > 0, z3.Real('alpha') <= 1]
for method in ("constant", "automatic"):
    for nvars in (2, 3):
        ENG.pending[:] = [[]]; npaths = 0; bad = 0; t0 = time.time()
        while ENG.pending:
            pre = ENG.pending.pop(); ENG.reset_path(pre)
            net, errors, tols = harness(method, nvars); npaths += 1
            conv = net["converged"]
            if isinstance(conv, SymBool): conv = bool(conv)
            if conv:
                post = z3.And([R(errors[v][1]) <= R(t) for v, t in zip(errors, tols)] + [z3.Real('res') <= z3.Real('tol_res')])
                if method == "automatic": post = z3.And(post, R(net["_options"]["alpha"]) == 1)
                s = z3.Solver(); s.add(*ENG.assumptions); s.add(*ENG.path); s.add(z3.Not(post))
                if str(s.check()) != 'unsat': bad += 1
        print(method, nvars, "paths", npaths, "bad", bad, "%.2fs" % (time.time()-t0))
