import sys, warnings; warnings.filterwarnings('ignore')
sys.path.insert(0, '/tmp/probe'); sys.path.insert(0, __import__('os').path.dirname(__import__('os').path.abspath(__file__)))
import numpy as np, pandas as pd, z3
import pandapipes as pp
import importlib; pf = importlib.import_module("pandapipes.pipeflow")
from sym import *
from sym import _t
import snp as S

net = pp.create_empty_network(fluid="water")
j = [pp.create_junction(net, pn_bar=5, tfluid_k=293.15, height_m=0.) for _ in range(3)]
pp.create_ext_grid(net, j[0], p_bar=5, t_k=293.15)
pp.create_pipe_from_parameters(net, j[0], j[1], length_km=1., diameter_m=0.1, k_mm=0.1, sections=2)
pp.create_pipe_from_parameters(net, j[1], j[2], length_km=2., diameter_m=0.1, k_mm=0.1)
pp.create_sink(net, j[2], mdot_kg_per_s=1.)
pp.create_sink(net, j[1], mdot_kg_per_s=0.5)
pp.pipeflow(net, use_numba=False)
print(net.res_junction, net.res_pipe.T)

def symcol(df, col, prefix):
    vals = np.empty(len(df), dtype=object)
    for i, ix in enumerate(df.index): vals[i] = real("%s_%s" % (prefix, ix))
    df[col] = pd.Series(vals, index=df.index, dtype=object)

symcol(net.junction, 'pn_bar', 'pn')
symcol(net.junction, 'height_m', 'h')
symcol(net.ext_grid, 'p_bar', 'peg')
symcol(net.pipe, 'length_km', 'L')
symcol(net.pipe, 'inner_diameter_mm', 'D')
symcol(net.pipe, 'k_mm', 'k')
symcol(net.pipe, 'loss_coefficient', 'zeta')
symcol(net.sink, 'mdot_kg_per_s', 'msink')
symcol(net.sink, 'scaling', 'sc')
print(net.pipe.dtypes)
print("patched modules:", S.install())
ENG.assumptions += [z3.Real('D_%d'%i) > 0 for i in range(2)] + [z3.Real('L_%d'%i) > 0 for i in range(2)] + [z3.Real('k_%d'%i) > 0 for i in range(2)]

from pandapipes.pf.pipeflow_setup import init_options, init_all_result_tables, create_lookups, initialize_pit, identify_active_nodes_branches, reduce_pit
init_options(net, use_numba=False)
init_all_result_tables(net)
print(net.res_junction.dtypes)
create_lookups(net)
initialize_pit(net)
print(net._pit['node'].dtype, net._pit['node'].shape)
np.set_printoptions(linewidth=250)
print(net._pit['node'][:, [5,6,7,13]])
print(net._pit['branch'][:, [4,5,7,8,10,20]])

import pandapipes.pf.pipeflow_setup as pfs
from scipy.sparse import coo_matrix as _coo
def coo_wrap(arg, shape=None):
    data, ij = arg
    return _coo((np.asarray(data).astype(float), ij), shape=shape)
pfs.coo_matrix = coo_wrap
identify_active_nodes_branches(net)
reduce_pit(net, mode="hydraulics")
net["_internal_data"] = dict()
from pandapipes.idx_node import PINIT, MDOTSLACKINIT, NODE_TYPE, P, LOAD
from pandapipes.idx_branch import MDOTINIT, LOAD_VEC_BRANCHES, JAC_DERIV_DM, FROM_NODE, TO_NODE
anp, abp = net._active_pit['node'], net._active_pit['branch']
# havoc iterate
for i in range(len(anp)):
    if anp[i, NODE_TYPE] != P: anp[i, PINIT] = real('p_%d' % i)
    else: anp[i, MDOTSLACKINIT] = real('msl_%d' % i)
for b in range(len(abp)): abp[b, MDOTINIT] = real('m_%d' % b)

class SymMatrix:
    def __init__(self, arg, shape=None):
        data, (rows, cols) = arg
        self.shape = shape; self.entries = {}
        for d, r, c in zip(data, rows, cols):
            self.entries[(int(r), int(c))] = self.entries.get((int(r), int(c)), 0) + d
XS = []
def sym_spsolve(A, b):
    n = A.shape[0]
    k = len(XS); x = np.array([real('x%d_%d' % (k, i)) for i in range(n)], dtype=object)
    cons = []
    for r in range(n):
        lhs = 0
        for (rr, c), v in A.entries.items():
            if rr == r: lhs = lhs + v * x[c]
        cons.append(_t(lhs) == _t(b[r]))
    XS.append((A, b, x, cons))
    return x
bsm = importlib.import_module("pandapipes.pf.build_system_matrix")
bsm.csr_matrix = SymMatrix
pf.spsolve = sym_spsolve
from pandapipes.properties import fluids as FL
_orig_get = FL.FluidPropertyInterExtra.get_at_value
_ufs = {}
def _get_at_value(self, arg):
    if isinstance(arg, np.ndarray) and arg.dtype == object:
        out = np.empty(arg.shape, dtype=object)
        for i, v in np.ndenumerate(arg):
            if isinstance(v, Sym):
                uf = _ufs.setdefault(id(self), z3.Function('prop%d' % len(_ufs), z3.RealSort(), z3.RealSort()))
                out[i] = Sym(uf(v.t))
            else:
                out[i] = float(self.prop_getter(float(v)))
        return out
    if isinstance(arg, Sym):
        uf = _ufs.setdefault(id(self), z3.Function('prop%d' % len(_ufs), z3.RealSort(), z3.RealSort()))
        return Sym(uf(arg.t))
    return _orig_get(self, arg)
FL.FluidPropertyInterExtra.get_at_value = _get_at_value
import time; t0=time.time()
res = pf.solve_hydraulics(net)
print("solve_hydraulics ok in %.2fs; forks=%d queries=%d" % (time.time()-t0, ENG.nforks, ENG.nqueries), ENG.decisions)
A, b, x, cons = XS[0]
print("load_vec branch 0:", z3.simplify(_t(abp[0, LOAD_VEC_BRANCHES])))
print("J dm 0:", z3.simplify(_t(abp[0, JAC_DERIV_DM])))
# mass balance after step
s = z3.Solver()
for a in ENG.assumptions: s.add(a)
for p in ENG.path: s.add(p)
for c in cons: s.add(c)
fn = abp[:, FROM_NODE].astype(int); tn = abp[:, TO_NODE].astype(int)
viol = []
for n in range(len(anp)):
    bal = 0
    for bidx in range(len(abp)):
        if tn[bidx] == n: bal = bal + abp[bidx, MDOTINIT]
        if fn[bidx] == n: bal = bal - abp[bidx, MDOTINIT]
    bal = bal - anp[n, LOAD]
    if anp[n, NODE_TYPE] == P: bal = bal - anp[n, MDOTSLACKINIT]
    viol.append(_t(bal) != 0)
s.add(z3.Or(viol))
t0=time.time(); print("mass balance violated?", s.check(), "%.2fs" % (time.time()-t0))

from pandapipes.pf.result_extraction import extract_all_results, extract_results_active_pit
t0=time.time()
extract_results_active_pit(net, mode="hydraulics")
extract_all_results(net, "hydraulics")
print("extract ok %.2fs forks=%d" % (time.time()-t0, ENG.nforks))
pd.set_option('display.width', 250); pd.set_option('display.max_colwidth', 60)
print(net.res_junction)
print(net.res_pipe[['p_from_bar','p_to_bar','mdot_from_kg_per_s','mdot_to_kg_per_s']])
print(net.res_ext_grid, net.res_sink)
print(z3.simplify(_t(net.res_pipe.v_mean_m_per_s.values[0])))

# ---- C02-style probe: kernel residual vs. documented law, one Newton linearisation point
from pandapipes.idx_branch import LAMBDA, RE, LENGTH, D, AREA, K, LOSS_COEFFICIENT, PL
from pandapipes.idx_node import PAMB, HEIGHT, TINIT
def R(x): return _t(x)
viol = []
rho = None
for b in range(len(abp)):
    f, t_ = int(abp[b, FROM_NODE]), int(abp[b, TO_NODE])
    # state before the step is (p_i, m_b) symbols; load vec was computed at that state
    p_f = R(real('p_%d'%f)) if anp[f, NODE_TYPE] != P else R(real('peg_0'))
    p_t = R(real('p_%d'%t_)) if anp[t_, NODE_TYPE] != P else R(real('peg_0'))
    m = z3.Real('m_%d' % b)
    rho_b = R(net.fluid.get_density(293.15).item() if hasattr(net.fluid.get_density(293.15),'item') else net.fluid.get_density(293.15))
    eta_b = R(float(net.fluid.get_viscosity(293.15)))
    d, L, k, zeta, A = R(abp[b, D]), R(abp[b, LENGTH]), R(abp[b, K]), R(abp[b, LOSS_COEFFICIENT]), R(abp[b, AREA])
    v = m / (rho_b * A)
    absv = z3.If(v >= 0, v, -v)
    Re = rho_b * absv * d / eta_b
    lam = 64 / Re + 1 / ((-2 * LOG10(k / (R(3.71) * d)))**2)
    dh = R(anp[f, HEIGHT]) - R(anp[t_, HEIGHT])
    ploss_pa = rho_b * R(9.81) * dh - rho_b * lam * L * v * absv / (2 * d) - zeta * rho_b * v * absv / 2
    oracle = (p_f + R(anp[f, PAMB])) - (p_t + R(anp[t_, PAMB])) + R(abp[b, PL]) + ploss_pa / R(1e5)
    viol.append(oracle != R(abp[b, LOAD_VEC_BRANCHES]))
    if b == 0:
        print("reported lambda == doc lambda?")
        s2 = z3.Solver(); s2.set("timeout", 60000)
        for a in ENG.assumptions + ENG.path + ENG.defined: s2.add(a)
        s2.add(lam != R(abp[b, LAMBDA])); t0=time.time(); print(s2.check(), "%.2fs" % (time.time()-t0))
s3 = z3.Solver(); s3.set("timeout", 120000)
for a in ENG.assumptions + ENG.path + ENG.defined: s3.add(a)
s3.add(z3.Or(viol)); t0=time.time(); r = s3.check(); print("momentum law violated?", r, "%.2fs" % (time.time()-t0))
if str(r) == 'sat': print(s3.model())
print("path:", [z3.simplify(p) for p in ENG.path][:8])
m3 = s2.model()
print("lam doc:", m3.eval(lam, model_completion=True), "\nlam ker:", m3.eval(R(abp[0, LAMBDA]), model_completion=True))
print("re ker:", z3.simplify(R(abp[0, RE])))
print("Re doc:", z3.simplify(Re))
print("----")
b=0
d, L, k, A = R(abp[b, D]), R(abp[b, LENGTH]), R(abp[b, K]), R(abp[b, AREA])
m = z3.Real('m_0'); v = m / (rho_b * A); absv = z3.If(v >= 0, v, -v); Re0 = rho_b * absv * d / eta_b
lam0 = 64 / Re0 + 1 / ((-2 * LOG10(k / (R(3.71) * d)))**2)
for nm, tt in [("Re0", Re0), ("re ker", R(abp[0, RE])), ("lam0", lam0), ("lamker", R(abp[0,LAMBDA])), ("log", LOG10(k / (R(3.71) * d))), ("m", m), ("D0", z3.Real('D_0'))]:
    print(nm, m3.eval(tt, model_completion=True))
print(z3.simplify(R(abp[0,LAMBDA])))
