import sys, warnings, time, importlib; warnings.filterwarnings('ignore')
sys.path.insert(0, '/tmp/probe')
import numpy as np, z3
import pandapipes
from sym import *; from sym import _t as R
import snp as S
S.install()
tb = importlib.import_module("pandapipes.pf.derivative_toolbox"); tbn = importlib.import_module("pandapipes.pf.derivative_toolbox_numba")
from pandapipes.idx_branch import *
print(type(tbn.derivatives_hydraulic_incomp_numba), hasattr(tbn.derivatives_hydraulic_incomp_numba, 'py_func'))
tbn.np = S.snp
for g in ('GRAVITATION_CONSTANT','P_CONVERSION','NORMAL_PRESSURE','NORMAL_TEMPERATURE'):
    for mod in (tb, tbn): setattr(mod, g, real(g))
n = 2
def mk():
    bp = np.empty((n, branch_cols), dtype=object); bp[...] = 0.0
    for i in range(n):
        for c, nm in [(MDOTINIT,'m'),(LENGTH,'L'),(LAMBDA,'lam'),(D,'d'),(LOSS_COEFFICIENT,'z'),(AREA,'A'),(PL,'pl'),(TOUTINIT,'tout')]:
            bp[i, c] = real('%s%d'%(nm,i))
        bp[i, FROM_NODE] = i
    args = [np.array([real('%s%d'%(nm,i)) for i in range(n)], dtype=object) for nm in ('dl','pi','pi1','dh','rho')]
    return bp, args
def run_all(fn, mkargs):
    outs = []; ENG.pending[:] = [[]]
    while ENG.pending:
        pre = ENG.pending.pop(); ENG.reset_path(pre); ENG.defined = []
        a = mkargs(); o = fn(*a); outs.append((list(ENG.path), o))
    return outs
t0=time.time()
o_np = run_all(lambda bp, a: tb.derivatives_hydraulic_incomp_np(bp, *a), mk)
o_nb = run_all(lambda bp, a: tbn.derivatives_hydraulic_incomp_numba.py_func(bp, *a), mk)
print("paths np %d numba %d, %.2fs" % (len(o_np), len(o_nb), time.time()-t0))
names = "load_vec load_vec_nodes_from load_vec_nodes_to df_dm df_dm_nodes df_dp df_dp1 dp_frict_loss".split()
# pairwise: for each pair of paths, if both path conditions hold then outputs equal
nq=0; bad=[]; t0=time.time()
for pc1, o1 in o_np:
    for pc2, o2 in o_nb:
        s = z3.Solver(); s.add(*pc1); s.add(*pc2)
        if str(s.check()) == 'unsat': continue
        for nm, a, b in zip(names, o1, o2):
            for i in range(n):
                s.push(); s.add(R(a[i]) != R(b[i])); r = s.check(); nq+=1
                if str(r) != 'unsat': bad.append((nm, i, str(r), s.model() if str(r)=='sat' else None))
                s.pop()
print("queries", nq, "mismatches", bad[:3], "%.2fs" % (time.time()-t0))
# --- compressible twins
def mk2():
    bp, a = mk()
    npit = np.empty((n, 18), dtype=object); npit[...] = 0.0
    from pandapipes.idx_node import TINIT
    for i in range(n): npit[i, TINIT] = real('tn%d'%i)
    lam = np.array([real('lam%d'%i) for i in range(n)], dtype=object)
    dl, pi, pi1, dh, rho = a
    extra = [np.array([real('%s%d'%(nm,i)) for i in range(n)], dtype=object) for nm in ('cf','dc','dc1','rhon')]
    return npit, bp, lam, dl, pi, pi1, dh, extra[0], extra[1], extra[2], rho, extra[3]
t0=time.time()
o_np = run_all(lambda *a: tb.derivatives_hydraulic_comp_np(*a), mk2)
o_nb = run_all(lambda *a: tbn.derivatives_hydraulic_comp_numba.py_func(*a), mk2)
print("comp paths np %d numba %d, %.2fs" % (len(o_np), len(o_nb), time.time()-t0))
nq=0; bad=[]; t0=time.time()
for pc1, o1 in o_np:
    for pc2, o2 in o_nb:
        s = z3.Solver(); s.add(*pc1); s.add(*pc2)
        if str(s.check()) == 'unsat': continue
        for nm, a, b in zip(names, o1, o2):
            for i in range(n):
                s.push(); s.add(R(a[i]) != R(b[i])); r = s.check(); nq+=1
                if str(r) != 'unsat': bad.append((nm, i, str(r), {str(d): s.model()[d] for d in s.model().decls() if str(d) in ('m0','m1')} if str(r)=='sat' else None))
                s.pop()
print("queries", nq, "mismatches", len(bad), bad[:4], "%.2fs" % (time.time()-t0))
