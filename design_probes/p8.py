exec(open('p2.py').read().split("def build():")[0])
import pandapower.control as control
from pandapower.timeseries import DFData, OutputWriter
from pandapipes.timeseries import run_timeseries
def build():
    net = pp.create_empty_network(fluid="water")
    j = [pp.create_junction(net, pn_bar=5, tfluid_k=293.15) for _ in range(2)]
    pp.create_ext_grid(net, j[0], p_bar=5, t_k=293.15)
    pp.create_pipe_from_parameters(net, j[0], j[1], length_km=1., inner_diameter_mm=100, outer_diameter_mm=100, k_mm=0.1)
    pp.create_sink(net, j[1], mdot_kg_per_s=1.)
    return net
importlib.import_module("pandapipes.pf.derivative_toolbox"); S.install(); bsm.csr_matrix = SymMatrix; pf.spsolve = sym_spsolve; pfs.coo_matrix = coo_wrap
FL.FluidPropertyInterExtra.get_at_value = _get_at_value
net = build()
prof = pd.DataFrame({"s0": np.array([real('prof_0'), real('prof_1')], dtype=object)})
ds = DFData(prof)
control.ConstControl(net, element='sink', variable='mdot_kg_per_s', element_index=[0], data_source=ds, profile_name=["s0"])
ow = OutputWriter(net, [0, 1], output_path=None, log_variables=[('res_junction', 'p_bar'), ('res_pipe', 'mdot_from_kg_per_s')])
calls = []
def sym_pipeflow(net, **kw):
    # one symbolic Newton step from havoc state, assumed converged
    XS.clear()
    pfs.init_options(net, use_numba=False, **{k: v for k, v in kw.items() if k in pfs.default_options})
    pfs.init_all_result_tables(net); pfs.create_lookups(net); pfs.initialize_pit(net)
    pfs.identify_active_nodes_branches(net); pfs.reduce_pit(net, mode="hydraulics"); net["_internal_data"] = dict()
    anp, abp = net._active_pit['node'], net._active_pit['branch']
    k = len(calls)
    for i in range(len(anp)):
        if anp[i, NODE_TYPE] != P: anp[i, PINIT] = real('p%d_%d' % (k, i))
        else: anp[i, MDOTSLACKINIT] = real('msl%d_%d' % (k, i))
    for b in range(len(abp)): abp[b, MDOTINIT] = real('m%d_%d' % (k, b))
    pf.solve_hydraulics(net)
    from pandapipes.pf.result_extraction import extract_all_results, extract_results_active_pit
    extract_results_active_pit(net, mode="hydraulics"); extract_all_results(net, "hydraulics")
    net.converged = True; calls.append(dict(sink=net.sink.mdot_kg_per_s.values.copy()))
ENG.assumptions += [z3.Real('m%d_0'%k) > 1 for k in range(3)]
try:
    run_timeseries(net, time_steps=[0, 1], run=sym_pipeflow, verbose=False)
    print("ran; calls:", calls)
    print(ow.output if hasattr(ow, 'output') else None)
except Exception as e:
    import traceback; traceback.print_exc()
