exec(open('p2.py').read().split("def build():")[0])
tb = importlib.import_module("pandapipes.pf.derivative_toolbox"); dc = importlib.import_module("pandapipes.pf.derivative_calculation")
S.install()
for g in ('GRAVITATION_CONSTANT','P_CONVERSION'): setattr(tb, g, real(g))
def F(mname, path_acc):
    bp = np.empty((1, branch_cols), dtype=object); bp[...] = 0.0
    for c, nm in [(LENGTH,'L'),(D,'d'),(LOSS_COEFFICIENT,'z'),(AREA,'A'),(PL,'pl'),(K,'k')]: bp[0, c] = real(nm)
    bp[0, MDOTINIT] = real(mname)
    eta = np.array([real('eta')], dtype=object)
    lam, re = dc.calc_lambda(bp[:, MDOTINIT], eta, bp[:, D], bp[:, K], False, "nikuradse", bp[:, LENGTH], {"use_numba": False}, bp[:, AREA])
    # cut: nikuradse part is a positive constant
    bp[:, RE] = re; bp[:, LAMBDA] = lam
    out = tb.derivatives_hydraulic_incomp_np(bp, np.array([0.0], dtype=object), np.array([real('pf')], dtype=object), np.array([real('pt')], dtype=object), np.array([real('dh')], dtype=object), np.array([real('rho')], dtype=object))
    return out[0][0]
pos = [z3.Real(n) > 0 for n in ('L','d','A','k','eta','rho','GRAVITATION_CONSTANT','P_CONVERSION')] + [z3.Real('z') >= 0]
ENG.assumptions += pos
res = {}
for mname in ('a', 'b'):
    outs = []; ENG.pending[:] = [[]]
    while ENG.pending:
        pre = ENG.pending.pop(); ENG.reset_path(pre); ENG.defined = []
        f = F(mname, None); outs.append((list(ENG.path), list(ENG.defined), f))
    res[mname] = outs
print({k: len(v) for k, v in res.items()})
# abstract log10 term by positive var: replace via substitution of the UF app
import itertools
t0 = time.time()
for (pa, da, fa), (pb, db, fb) in itertools.product(res['a'], res['b']):
    s = z3.Solver(); s.set('timeout', 60000)
    s.add(*pos); s.add(*pa); s.add(*pb); s.add(*da); s.add(*db)
    s.add(R(fa) == 0, R(fb) == 0, z3.Real('a') != z3.Real('b'))
    tq = time.time(); r = s.check(); print(len(pa), len(pb), r, "%.1fs" % (time.time()-tq))
    if str(r) == 'sat':
        m = s.model(); print({str(d): m[d] for d in m.decls() if str(d) in ('a','b')})
for (pa, da, fa) in res['a']:
    s = z3.Solver(); s.set('timeout', 60000); s.add(*pos); s.add(*pa); s.add(*da); s.add(R(fa) == 0)
    print("reach:", s.check())
