from pandapipes.pf import pipeflow_setup as ps
class _Fluid:
    name = "water"; is_gas = False
ps.get_fluid = lambda net: net["fluid"]

def _layer(ip, i, hp, h, tp, t):
    d = {}
    if ip: d["iter"] = i
    if hp: d["max_iter_hyd"] = h
    if tp: d["max_iter_therm"] = t
    return d

def resolve_iter(uip: bool, ui: int, uhp: bool, uh: int, utp: bool, ut: int,
                 kip: bool, ki: int, khp: bool, kh: int, ktp: bool, kt: int) -> int:
    """
    post: __return__ == (kh if khp else ki if kip else uh if uhp else ui if uip else 10)
    """
    net = {"fluid": _Fluid(), "user_pf_options": _layer(uip, ui, uhp, uh, utp, ut)}
    ps.init_options(net, **_layer(kip, ki, khp, kh, ktp, kt))
    return net["_options"]["max_iter_hyd"]

def resolve_iter_bad(uip: bool, ui: int, uhp: bool, uh: int, utp: bool, ut: int,
                 kip: bool, ki: int, khp: bool, kh: int, ktp: bool, kt: int) -> int:
    """
    post: __return__ == (kh if khp else uh if uhp else ki if kip else ui if uip else 10)
    """
    net = {"fluid": _Fluid(), "user_pf_options": _layer(uip, ui, uhp, uh, utp, ut)}
    ps.init_options(net, **_layer(kip, ki, khp, kh, ktp, kt))
    return net["_options"]["max_iter_hyd"]
