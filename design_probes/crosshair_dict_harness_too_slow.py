from typing import Dict, Optional
import copy
from pandapipes.pf import pipeflow_setup as ps

class _Fluid:  # stub: get_fluid(net).name
    name = "water"
    is_gas = False

def _mknet(user):
    net = {"fluid": _Fluid()}
    if user is not None:
        net["user_pf_options"] = user
    return net

ps.get_fluid = lambda net: net["fluid"]

def resolve_iter(user: Dict[str, int], kw: Dict[str, int]) -> Dict[str, int]:
    """
    pre: all(k in ("iter", "max_iter_hyd", "max_iter_therm", "tol_p", "foo") for k in user)
    pre: all(k in ("iter", "max_iter_hyd", "max_iter_therm", "tol_p", "foo") for k in kw)
    post: __return__["max_iter_hyd"] == (kw["max_iter_hyd"] if "max_iter_hyd" in kw else kw["iter"] if "iter" in kw else user["max_iter_hyd"] if "max_iter_hyd" in user else user["iter"] if "iter" in user else 10)
    post: __return__["tol_p"] == (kw["tol_p"] if "tol_p" in kw else user["tol_p"] if "tol_p" in user else 1e-5)
    """
    net = _mknet(user)
    ps.init_options(net, **kw)
    return net["_options"]
