"""Throwaway probe: numpy proxy used as `np` inside pandapipes modules."""
import numpy as _np, math, types, sys
from sym import Sym, SymBool, ENG, _t
import z3

def _is_obj(a):
    return isinstance(a, _np.ndarray) and a.dtype == object

def _fdtype(dtype):
    if dtype is None: return object
    try:
        if dtype is object: return object
        if _np.issubdtype(_np.dtype(dtype), _np.floating): return object
    except TypeError:
        pass
    return dtype

class _SNP(types.ModuleType):
    float64 = object   # code writes dtype=np.float64
    def __getattr__(self, name):
        return getattr(_np, name)
    # constructors: float arrays become object arrays
    def empty(self, shape, dtype=None, **kw): 
        dt = _fdtype(dtype); a = _np.empty(shape, dtype=dt, **kw)
        if dt is object: a[...] = 0.0
        return a
    def zeros(self, shape, dtype=None, **kw):
        dt = _fdtype(dtype); a = _np.zeros(shape, dtype=dt, **kw)
        if dt is object: a[...] = 0.0
        return a
    def ones(self, shape, dtype=None, **kw):
        dt = _fdtype(dtype); a = _np.ones(shape, dtype=dt, **kw)
        if dt is object: a[...] = 1.0
        return a
    def full(self, shape, fill_value, dtype=None, **kw):
        if dtype is None and not isinstance(fill_value, (int, bool, _np.integer, _np.bool_)): dtype = object
        return _np.full(shape, fill_value, dtype=_fdtype(dtype) if dtype is not None else None, **kw)
    def array(self, obj, dtype=None, **kw):
        if dtype is not None: dtype = _fdtype(dtype)
        return _np.array(obj, dtype=dtype, **kw)
    def isnan(self, a):
        if _is_obj(a):
            return _np.array([ (False if isinstance(x, Sym) else (isinstance(x, float) and math.isnan(x))) for x in a.ravel()], dtype=bool).reshape(a.shape)
        if isinstance(a, Sym): return False
        return _np.isnan(a)
    def nan_to_num(self, a, copy=True):
        if _is_obj(a):
            out = a.copy() if copy else a
            m = self.isnan(a); out[m] = 0.0; return out
        return _np.nan_to_num(a, copy=copy)
    def _unary(self, a, name, mfun):
        def one(x):
            return getattr(x, name)() if isinstance(x, Sym) else mfun(x)
        if _is_obj(a):
            out = _np.empty(a.shape, dtype=object)
            for i, v in _np.ndenumerate(a): out[i] = one(v)
            return out
        if isinstance(a, Sym): return one(a)
        return getattr(_np, name)(a)
    def log10(self, a): return self._unary(a, 'log10', math.log10)
    def log(self, a): return self._unary(a, 'log', math.log)
    def exp(self, a): return self._unary(a, 'exp', math.exp)
    def sqrt(self, a): return self._unary(a, 'sqrt', math.sqrt)
    def max(self, a, *args, **kw):
        if _is_obj(a) and not args and not kw:
            it = list(a.ravel()); r = it[0]
            for v in it[1:]:
                if isinstance(r, Sym) or isinstance(v, Sym):
                    r = Sym(z3.If(_t(v) > _t(r), _t(v), _t(r)))
                else: r = v if v > r else r
            return r
        return _np.max(a, *args, **kw)
    amax = max
    def maximum(self, a, b):
        if _is_obj(a) or _is_obj(b) or isinstance(a, Sym) or isinstance(b, Sym):
            a_, b_ = _np.broadcast_arrays(_np.asarray(a, dtype=object), _np.asarray(b, dtype=object))
            out = _np.empty(a_.shape, dtype=object)
            for i in _np.ndindex(a_.shape):
                x, y = a_[i], b_[i]
                out[i] = Sym(z3.If(_t(x) >= _t(y), _t(x), _t(y))) if (isinstance(x, Sym) or isinstance(y, Sym)) else max(x, y)
            return out if out.shape else out[()]
        return _np.maximum(a, b)
    def any(self, a, *args, **kw):
        return _np.any(a, *args, **kw)

snp = _SNP('snp')

def install():
    import pandapipes
    n = 0
    for name, mod in list(sys.modules.items()):
        if name.startswith('pandapipes') and mod is not None and getattr(mod, 'np', None) is _np:
            mod.np = snp; n += 1
    return n
