exec(open('p2.py').read().split("def build():")[0])
importlib.import_module("pandapipes.pf.derivative_toolbox"); S.install(); bsm.csr_matrix = SymMatrix; pf.spsolve = sym_spsolve; pfs.coo_matrix = coo_wrap
FL.FluidPropertyInterExtra.get_at_value = _get_at_value
from pandapipes.idx_node import TABLE_IDX as NT, ELEMENT_IDX as NE
import logging; logging.disable(logging.CRITICAL)
def build(jl, pl, order):
    """jl: labels of logical junctions A,B,C ; pl labels of pipes ; order: creation order of junction rows"""
    net = pp.create_empty_network(fluid="water")
    for k in order:
        pp.create_junction(net, pn_bar=5, tfluid_k=293.15, height_m=0., index=jl[k])
    pp.create_ext_grid(net, jl[0], p_bar=5, t_k=293.15)
    pipes = [(0, 1, 2), (1, 2, 1)]
    for n_, (a, b, sec) in (enumerate(pipes) if order[0] == 0 else reversed(list(enumerate(pipes)))):
        pp.create_pipe_from_parameters(net, jl[a], jl[b], length_km=1., inner_diameter_mm=100, outer_diameter_mm=100., k_mm=0.1, sections=sec, index=pl[n_])
    pp.create_sink(net, jl[2], mdot_kg_per_s=1.); pp.create_sink(net, jl[1], mdot_kg_per_s=0.5)
    inv = {v: k for k, v in jl.items()}; pinv = {v: k for k, v in pl.items()}
    def sc(df, col, prefix, m): 
        vals = np.empty(len(df), dtype=object)
        for i, ix in enumerate(df.index): vals[i] = real("%s_%s" % (prefix, m(ix, df, i)))
        df[col] = pd.Series(vals, index=df.index, dtype=object)
    sc(net.junction, 'height_m', 'h', lambda ix, df, i: inv[ix]); sc(net.pipe, 'length_km', 'L', lambda ix, df, i: pinv[ix])
    sc(net.pipe, 'inner_diameter_mm', 'D', lambda ix, df, i: pinv[ix]); sc(net.pipe, 'k_mm', 'k', lambda ix, df, i: pinv[ix])
    sc(net.sink, 'mdot_kg_per_s', 'ms', lambda ix, df, i: inv[df.junction.values[i]])
    return net, inv, pinv
def run(jl, pl, order, prefix=[]):
    ENG.reset_path(prefix); ENG.defined = []; XS.clear()
    net, inv, pinv = build(jl, pl, order)
    pfs.init_options(net, use_numba=False); pfs.init_all_result_tables(net); pfs.create_lookups(net); pfs.initialize_pit(net)
    pfs.identify_active_nodes_branches(net); pfs.reduce_pit(net, mode="hydraulics"); net["_internal_data"] = dict()
    anp, abp = net._active_pit['node'], net._active_pit['branch']
    # identity of nodes: junction -> logical name; internal pipe nodes -> (pipe logical, k)
    nid = {}
    jt = pfs.get_lookup(net, 'node', 'table')['t2n']['junction']
    intn = net._lookups['internal_nodes'].get('pipe')
    pidx = net._lookups['branch_index']['pipe']
    for i in range(len(anp)):
        if anp[i, NT] == jt: nid[i] = 'J%d' % inv[int(anp[i, NE])]
    # internal nodes: via from/to of pipe sections
    bid = {}
    f, t = net._lookups['branch_from_to']['pipe']; cnt = {}
    for b in range(f, t):
        lab = pinv[int(abp[b, ELEMENT_IDX])]; k = cnt.get(lab, 0); cnt[lab] = k + 1; bid[b] = 'P%d_%d' % (lab, k)
        tn_ = int(abp[b, TO_NODE])
        if tn_ not in nid: nid[tn_] = 'N%d_%d' % (lab, k)
    for i in range(len(anp)):
        if anp[i, NODE_TYPE] != P: anp[i, PINIT] = real('p_' + nid[i])
        else: anp[i, MDOTSLACKINIT] = real('msl_' + nid[i])
    for b in range(len(abp)): abp[b, MDOTINIT] = real('m_' + bid[b])
    pf.solve_hydraulics(net)
    A, bvec, x, cons = XS[-1]
    n = len(anp); rows = {}
    names = {i: 'n:' + nid[i] for i in range(n)}; names.update({n + b: 'b:' + bid[b] for b in range(len(abp))})
    sl = [i for i in range(n) if anp[i, NODE_TYPE] == P]
    names.update({n + len(abp) + k: 's:' + nid[i] for k, i in enumerate(sl)})
    Jd = {(names[r], names[c]): v for (r, c), v in A.entries.items()}
    bd = {names[r]: bvec[r] for r in range(A.shape[0])}
    return Jd, bd, list(ENG.path)
ENG.assumptions += [z3.Real('m_P%d_%d'%(a,b)) > 1 for a in range(2) for b in range(2)] + [z3.Real('%s_%d'%(v,i)) > 0 for i in range(2) for v in 'DLk']
t0 = time.time()
JA, bA, pA = run({0:0,1:1,2:2}, {0:0,1:1}, [0,1,2])
JB, bB, pB = run({0:7,1:3,2:100000}, {0:5,1:2}, [2,0,1])
print("runs %.2fs" % (time.time()-t0), len(JA), len(JB), set(JA)==set(JB), set(bA)==set(bB))
nd = 0; t0 = time.time(); viaz3 = 0
for k in JA:
    d = z3.simplify(R(JA[k]) - R(JB[k]), som=True)
    if not (z3.is_rational_value(d) and d.as_fraction() == 0):
        viaz3 += 1; s = z3.Solver(); s.set('timeout', 20000); s.add(*ENG.assumptions); s.add(R(JA[k]) != R(JB[k])); r = s.check()
        if str(r) != 'unsat': nd += 1; print("J differs", k, r)
for k in bA:
    d = z3.simplify(R(bA[k]) - R(bB[k]), som=True)
    if not (z3.is_rational_value(d) and d.as_fraction() == 0):
        viaz3 += 1; s = z3.Solver(); s.set('timeout', 20000); s.add(*ENG.assumptions); s.add(R(bA[k]) != R(bB[k])); r = s.check()
        if str(r) != 'unsat': nd += 1; print("b differs", k, r)
print("differences", nd, "needed z3:", viaz3, "%.2fs" % (time.time()-t0))
