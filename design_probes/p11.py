exec(open('p2.py').read().split("def build():")[0])
import pandapower as ppow
from pandapipes.multinet.create_multinet import create_empty_multinet, add_net_to_multinet
from pandapipes.multinet.control.controller.multinet_control import P2GControlMultiEnergy, G2PControlMultiEnergy
importlib.import_module("pandapipes.pf.derivative_toolbox"); S.install()
gas = pp.create_empty_network(fluid="hgas")
j = pp.create_junctions(gas, 2, pn_bar=1, tfluid_k=293.15)
pp.create_source(gas, j[0], mdot_kg_per_s=0.); pp.create_source(gas, j[1], mdot_kg_per_s=0.)
pp.create_sink(gas, j[1], mdot_kg_per_s=0.); pp.create_sink(gas, j[0], mdot_kg_per_s=0.)
pw = ppow.create_empty_network(); b = ppow.create_bus(pw, 20.)
ppow.create_load(pw, b, p_mw=1.); ppow.create_load(pw, b, p_mw=1.); ppow.create_sgen(pw, b, p_mw=0.); ppow.create_sgen(pw, b, p_mw=0.)
mn = create_empty_multinet("m"); add_net_to_multinet(mn, pw, "power"); add_net_to_multinet(mn, gas, "gas")
symcol(pw.load, 'p_mw', 'P'); symcol(pw.load, 'scaling', 'sc')
symcol(gas.sink, 'scaling', 'ssc'); symcol(gas.source, 'scaling', 'srcsc')
gas.source['mdot_kg_per_s'] = gas.source['mdot_kg_per_s'].astype(object); gas.sink['mdot_kg_per_s'] = gas.sink['mdot_kg_per_s'].astype(object)
pw.sgen['p_mw'] = pw.sgen['p_mw'].astype(object)
for vec in (False, True):
    ip, ig = ([0,1],[1,0]) if vec else (0, 1)
    c1 = P2GControlMultiEnergy(mn, ip, ig, efficiency=real('eta1'))
    c1.fluid_calorific_value = real('hhv')
    c1.control_step(mn)
    print("P2G", vec, gas.source.mdot_kg_per_s.values)
    # feed that gas into sinks and convert back
    gas.sink.loc[:, 'mdot_kg_per_s'] = gas.source.mdot_kg_per_s.values[::-1] if vec else gas.source.mdot_kg_per_s.values
    c2 = G2PControlMultiEnergy(mn, ip, ig, efficiency=real('eta2')); c2.fluid_calorific_value = real('hhv')
    c2.control_step(mn)
    print("G2P", vec, pw.sgen.p_mw.values)
    s = z3.Solver(); s.add(z3.Real('hhv') > 0)
    idx = [0,1] if vec else [0]
    for i in idx:
        back = R(pw.sgen.p_mw.values[i]); src = z3.Real('P_%d'%i)*z3.Real('sc_%d'%i)
        # sink scaling multiplies too
        k = ig[ip.index(i)] if vec else ig
        s.push(); s.add(back != src * z3.Real('eta1') * z3.Real('eta2') * z3.Real('ssc_%d' % k)); print("roundtrip", i, s.check()); s.pop()
