"""C01 — mass is conserved at every supplied junction and over the whole network.

Decided by: symbolic execution of the real pipeflow (one undamped Newton step from an arbitrary
state, DESIGN 3.3a) and z3 on `J x = b  |=  nodal imbalance of the reported flows == 0`.
"""
import random

import numpy as np
import z3

from svx import harness as H, nets, catalog, discharge as D, stubs, runner
from svx.sym import Sym, _t, ENG
from svx.common import (is_nan, cell_term, branch_rows, node_load_tables, concrete_pipeflow,
                        finish_worker, model_inputs)

PROP = "C01"

META = {
    "level": "model_checking",
    "functions": [
        "pandapipes.pipeflow.pipeflow/hydraulics/solve_hydraulics (update lines)",
        "pf.pipeflow_setup.initialize_pit/create_lookups/identify_active_nodes_branches/reduce_pit/reduce_lookups",
        "component_models.*.create_pit_node_entries/create_pit_branch_entries/adaption_*_hydraulic",
        "component_toolbox.set_fixed_node_entries", "internals_toolbox._sum_by_group*",
        "pf.derivative_calculation.calculate_derivatives_hydraulic/calc_lambda/calc_der_lambda",
        "pf.derivative_toolbox.derivatives_hydraulic_{incomp,comp}_np and numba py_func twins",
        "pf.build_system_matrix.build_system_matrix(heat_mode=False)",
        "pf.result_extraction.extract_results_active_pit/extract_all_results + every extract_results",
    ],
    "files": ["src/pandapipes/pf/build_system_matrix.py", "src/pandapipes/pf/derivative_toolbox.py",
              "src/pandapipes/pf/derivative_toolbox_numba.py", "src/pandapipes/pf/pipeflow_setup.py",
              "src/pandapipes/pf/result_extraction.py", "src/pandapipes/pipeflow.py",
              "src/pandapipes/component_models/abstract_models/const_flow_models.py",
              "src/pandapipes/component_models/ext_grid_component.py",
              "src/pandapipes/component_models/abstract_models/circulation_pump.py"],
    "stubs": stubs.STUB_LIST,
    "assumptions": [
        "reals instead of IEEE doubles: the imbalance is shown to be exactly 0 after an undamped step",
        "spsolve returns some solution of J x = b (J nonsingular not assumed)",
        "state before the step arbitrary except entries whose own row forces x=0 (prescribed values)",
        "regime per path: the recorded path condition (reported pressures >= 0 assumed in Junction.extract_results)",
        "sign convention: res_ext_grid.mdot_kg_per_s counts like a load (negative = feed-in)",
    ],
    "bound": {"quick": "11 core structures (J<=6, B<=8 incl. sections) x {numpy, numba py_func} x witness regimes "
                       "(all flowing / one branch at zero flow / reverse) + seeded random multigraphs J<=4",
              "thorough": "core + 150 seeded random connected multigraphs J<=4, B<=6, random component mix, "
                          "in_service flags, labellings; fork-complete exploration (budget 64 paths) on J<=3"},
    "outside": ["round-off size of the imbalance", "damping alpha<1", "larger networks",
                "compiled numba code (py_func source is executed)"],
    "rule": "one obligation per (structure, path, supplied junction) + one global; non-trivial = contains at "
            "least one symbolic branch flow",
}


def balance_terms(net):
    """junction label -> z3 term of the nodal imbalance, from the *result tables* only"""
    out = {}
    glob_feed = z3.RealVal(0)
    glob_load = z3.RealVal(0)
    resj = net.res_junction
    supplied = [j for j in net.junction.index if not is_nan(resj.at[j, "p_bar"])]
    bal = {j: z3.RealVal(0) for j in supplied}
    nontrivial = {j: False for j in supplied}
    for tbl, ix, fj, tj in branch_rows(net):
        res = net["res_" + tbl]
        if True:
            mf, mt = res.at[ix, "mdot_from_kg_per_s"], res.at[ix, "mdot_to_kg_per_s"]
            if not is_nan(mf) and fj in bal:
                bal[fj] = bal[fj] + cell_term(mf)
                nontrivial[fj] = nontrivial[fj] or isinstance(mf, Sym)
            if not is_nan(mt) and tj in bal:
                bal[tj] = bal[tj] + cell_term(mt)
                nontrivial[tj] = nontrivial[tj] or isinstance(mt, Sym)
    for tbl, sign in node_load_tables(net):
        res = net["res_" + tbl]
        for ix in net[tbl].index:
            m = res.at[ix, "mdot_kg_per_s"]
            j = int(net[tbl].at[ix, "junction"])
            if is_nan(m):
                continue
            if j in bal:
                bal[j] = bal[j] + sign * cell_term(m)
            if tbl == "ext_grid":
                glob_feed = glob_feed - cell_term(m)
            else:
                glob_load = glob_load + sign * cell_term(m)
    return bal, nontrivial, glob_feed - glob_load


def witnesses_for(names, path_hint=None, nb=6):
    """all flowing forward / all reverse / one branch at zero flow"""
    base = dict(names)
    ws = [H.Witness(base), H.Witness(base, kinds={"m": -0.6})]
    return ws


def jobs(tier, seed):
    out = []
    specs = catalog.core_specs()
    rng = random.Random(1000 + seed)
    nrand = 10 if tier == "quick" else 150
    for i in range(nrand):
        specs.append(catalog.random_spec(rng, name="rand%d_s%d" % (i, seed)))
    for s in specs:
        for numba in (False, True):
            out.append({"name": "%s/%s" % (s["name"], "numba" if numba else "numpy"), "spec": s,
                        "numba": numba, "mode": "witness"})
    # calculations with a thermal stage: the reported flows balance as well (two pressure zones, one of them without a
    # temperature feeder; multi-section pipes)
    two_zones = {"name": "w_two_zones_seq", "fluid": "water", "nj": 6, "elems": [
        catalog.E("ext_grid", j=0, type="pt"), catalog.E("pipe", f=0, to=1, u=5.0, sections=2), catalog.E("pipe", f=1, to=2, u=5.0),
        catalog.E("sink", j=2), catalog.E("ext_grid", j=3, type="p"), catalog.E("pipe", f=3, to=4, u=5.0),
        catalog.E("pipe", f=4, to=5, u=5.0, sections=2), catalog.E("sink", j=5), catalog.E("sink", j=4)]}
    for s_, m_ in ((two_zones, "sequential"), (two_zones, "bidirectional"), (catalog.w_circ_loop(), "sequential"),
                   (catalog.w_heat_reversed(), "sequential")):
        for numba in (False, True):
            out.append({"name": "%s/%s/%s" % (s_["name"], m_, "numba" if numba else "numpy"), "spec": s_, "numba": numba,
                        "mode": "witness", "pfmode": m_})
    if tier == "thorough":
        for s in specs:
            if s["nj"] <= 3:
                out.append({"name": "%s/fork" % s["name"], "spec": s, "numba": False, "mode": "fork"})
    else:
        for s in specs[:1]:
            out.append({"name": "%s/fork" % s["name"], "spec": s, "numba": False, "mode": "fork"})
    return out


def worker(job):
    spec = job["spec"]
    patched, ass = H.install(numba_pyfunc=job["numba"])
    is_gas = spec["fluid"] != "water"
    holder = {}

    def run():
        net, names = nets.build(spec, nets.sym_valuer(), fluid=stubs.make_sym_fluid(is_gas))
        holder["names"] = names
        import pandapipes as pp
        pp.pipeflow(net, use_numba=job["numba"], mode=job.get("pfmode") or "hydraulics")
        return net

    # dry build for names / admissibility assumptions
    _, names = nets.build(spec, nets.sym_valuer())
    A = list(ass) + nets.admissibility(names)
    # discover prescribed (fixed) unknowns with everything havocked
    H.CTX.fixed = set()
    ex0 = H.explore_witnesses(run, [H.Witness(dict(names))], A)
    p0 = ex0.paths[0]
    if p0.exc is not None and not p0.systems:
        return finish_worker(job, ex0, [], errors=["first path raised %r" % p0.exc] if not
                             _expected_exc(p0.exc) else [], note=repr(p0.exc))
    H.CTX.fixed = H.discover_fixed(p0.systems)
    # extra witnesses: one per branch unknown at zero flow
    ws = witnesses_for(names)
    mnames = [v[1] for k, v in p0.havoc.items() if k[0] == "m"]
    for mn in mnames[:6]:
        ws.append(H.Witness(dict(names, **{mn: 0.0})))
    if job["mode"] == "fork":
        ex = H.explore(run, A, max_paths=16 if job["tier"] == "quick" else 64, feas_timeout_ms=1000)
    else:
        ex = H.explore_witnesses(run, ws, A)
    viol = []
    validated, verr = 0, []
    for pi, p in enumerate(ex.paths):
        if p.witness is not None and pi < 2:
            n, bad = H.validate_against_impl(spec, p, dict(use_numba=job["numba"], mode=job.get("pfmode") or "hydraulics"), is_gas)
            validated += 1 if n else 0
            verr += ["encoding validation, path %d: %s" % (pi, b) for b in bad[:3]]
    for pi, p in enumerate(ex.paths):
        if p.exc is not None:
            if not _expected_exc(p.exc):
                return finish_worker(job, ex, viol, errors=["path %d raised %r" % (pi, p.exc)])
            continue
        net = p.value
        bal, nontriv, glob = balance_terms(net)
        # slice: node rows and slack-mass rows only (constant coefficients) -- fewer hypotheses is a
        # stronger statement; a `sat` answer is re-decided with all hypotheses
        hy_min = list(ENG.assumptions)
        for s_ in p.systems:
            nn_, nb_ = len(s_["node_names"]), len(s_["branch_names"])
            hy_min += [c for r, c in enumerate(s_["cons"]) if r < nn_ or r >= nn_ + nb_]
        hy_full = p.hyps()
        if p.witness is not None:
            H.reach_by_witness(p)
        elif pi == 0:
            D.reachable(hy_full, timeout_ms=10000)
        for j, t in list(bal.items()) + [("global", glob)]:
            goal = t == 0
            fp = "C01/imbalance/%s" % ("global" if j == "global" else "nodal")
            if sum(1 for v in viol if v["fingerprint"] == fp) >= 3:
                continue
            r, m, how = D.check(hy_min, goal, sample="%s path %d junction %s" % (job["name"], pi, j))
            if r == 'sat':
                # re-decide with all hypotheses (short budget); unknown keeps the candidate, the
                # replay on the real code is the final arbiter
                r2, m2, _ = D.check(hy_full, goal, timeout_ms=5000)
                if r2 == 'unsat':
                    r = 'unsat'
                elif r2 == 'sat':
                    m = m2
            if r == 'sat':
                viol.append({"fingerprint": "C01/imbalance/%s" % ("global" if j == "global" else "nodal"),
                             "detail": {"job": job["name"], "junction": j, "path": pi},
                             "replay": {"spec": spec, "numba": job["numba"], "junction": j, "pfmode": job.get("pfmode"),
                                        "values": model_inputs(m, names)}})
            elif r == 'unknown':
                job.setdefault("_inconclusive", []).append("junction %s path %d" % (j, pi))
    return finish_worker(job, ex, viol, errors=verr, validated=validated)


def _expected_exc(e):
    # outcomes of the real code that are legitimate on some paths
    from pandapipes.pf.pipeflow_setup import PipeflowNotConverged
    return isinstance(e, (PipeflowNotConverged, UserWarning))


def replay(rs):
    """concrete run of the real pipeflow (numba on and off) with the counterexample's inputs"""
    spec = rs["spec"]
    worst = 0.0
    detail = {}
    # the solver's values first, nominal inputs as a second attempt (the obligation is claimed for all values)
    for numba, values in ((False, rs.get("values", {})), (True, rs.get("values", {})), (False, {}), (True, {})):
        if not values and worst > 1e-7:
            break
        net, _ = nets.build(spec, nets.concrete_valuer(values))
        ok, err = concrete_pipeflow(net, use_numba=numba, mode=rs.get("pfmode") or "hydraulics", max_iter_hyd=100, max_iter_therm=100)
        numba = "%s/%s" % (numba, "model" if values else "nominal")
        if not ok:
            detail["numba=%s" % numba] = "pipeflow failed: %s" % err
            continue
        bal, _, glob = balance_terms(net)
        vals = {str(j): float(z3.simplify(t).as_fraction()) if z3.is_rational_value(z3.simplify(t)) else None
                for j, t in list(bal.items()) + [("global", glob)]}
        scale = max([1e-3] + [abs(float(x)) for tbl in ("sink", "source", "mass_storage") if tbl in net
                              for x in (net[tbl].mdot_kg_per_s.values * net[tbl].scaling.values)])
        w = max(abs(v) for v in vals.values() if v is not None) / scale
        worst = max(worst, w)
        detail["numba=%s" % numba] = {"imbalance": vals, "rel": w}
    return worst > 1e-7, detail


def main(argv=None):
    return runner.run(PROP, "checks.c01", jobs, META, argv)
