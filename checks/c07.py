"""C07 — numba and numpy engines and the matrix-update option give the same answer.

(a) kernel twins: every numba kernel is executed *from its own Python source* (`py_func`) on
    symbolic arrays, and so is its numpy twin; for every jointly feasible pair of paths each
    residual-type / reported output must be equal for all values (z3).
(b) end to end: the real pipeflow is executed symbolically twice (use_numba False / True) from the
    same arbitrary state with the same update vector; assembled systems and extracted results equal.
(c) only_update_hydraulic_matrix / reuse_internal_data: two consecutive calls with changed loads
    vs. a plain call.
"""
import builtins
import importlib
import itertools
import random

import numpy as np
import z3

from svx import harness as H, nets, catalog, discharge as D, stubs, runner
from svx.sym import Sym, _t, ENG, real
from svx.common import finish_worker, is_nan
from svx import equiv

PROP = "C07"

META = {
    "level": "model_checking",
    "functions": [
        "derivative_toolbox.derivatives_hydraulic_incomp_np / derivative_toolbox_numba.derivatives_hydraulic_incomp_numba.py_func",
        "derivatives_hydraulic_comp_np / _numba.py_func", "derivatives_thermal_np / _numba.py_func (+ _make_lookups)",
        "calc_lambda_nikuradse_{incomp,comp}_np / _numba.py_func", "calc_medium_pressure_with_derivative_np / _numba.py_func",
        "calc_derived_values_np / _numba.py_func", "result_extraction.get_branch_results_gas / get_pressures_numba + get_gas_vel_numba",
        "internals_toolbox._sum_by_group_np / _sum_values_by_index.py_func",
        "pipeflow(use_numba=False) vs pipeflow(use_numba=True) symbolically; build_system_matrix update path",
    ],
    "files": ["src/pandapipes/pf/derivative_toolbox.py", "src/pandapipes/pf/derivative_toolbox_numba.py",
              "src/pandapipes/pf/derivative_calculation.py", "src/pandapipes/pf/result_extraction.py",
              "src/pandapipes/pf/internals_toolbox.py", "src/pandapipes/pf/build_system_matrix.py"],
    "stubs": stubs.STUB_LIST,
    "assumptions": ["reals instead of doubles; CPython semantics of the numba kernels' source (`np.bool_` flags passed)",
                    "Jacobian-type outputs (df_dm, df_dp, ...) are compared and reported, but a difference there alone is "
                    "not a violation of the property (it does not change a converged result)",
                    "array length <= 2 (3 in thorough) for kernel twins"],
    "bound": {"quick": "kernel twins with arrays of length 1-2, all paths (thresholds 1e-8, 1e-10, p_from = p_to, concrete NaN flow); "
                       "end-to-end on 8 structures; update option on 3 structures",
              "thorough": "arrays of length 2-3; end-to-end on core + 40 random structures"},
    "outside": ["compiled machine code of numba (only its source semantics)", "float rounding differences"],
    "rule": "one obligation per (twin pair, path pair, output, element)",
}

tb = importlib.import_module("pandapipes.pf.derivative_toolbox")
tbn = importlib.import_module("pandapipes.pf.derivative_toolbox_numba")
rex = importlib.import_module("pandapipes.pf.result_extraction")
itb = importlib.import_module("pandapipes.pf.internals_toolbox")


def _arr(prefix, n):
    return np.array([real("%s%d" % (prefix, i)) for i in range(n)], dtype=object)


def _branch_pit(n, cols, nan_m=None):
    from pandapipes.idx_branch import branch_cols, FROM_NODE, TO_NODE, MDOTINIT
    bp = np.empty((n, branch_cols), dtype=object)
    bp[...] = 0.0
    import pandapipes.idx_branch as ib
    for i in range(n):
        for c in cols:
            bp[i, getattr(ib, c)] = real("%s%d" % (c.lower(), i))
        bp[i, FROM_NODE] = i
        bp[i, TO_NODE] = i + 1
    if nan_m is not None:
        bp[nan_m, MDOTINIT] = float("nan")
    return bp


def _node_pit(n, cols):
    from pandapipes.idx_node import node_cols
    import pandapipes.idx_node as inn
    npit = np.empty((n, node_cols), dtype=object)
    npit[...] = 0.0
    for i in range(n):
        for c in cols:
            npit[i, getattr(inn, c)] = real("n%s%d" % (c.lower(), i))
    return npit


HYD_COLS = ["MDOTINIT", "LENGTH", "LAMBDA", "D", "LOSS_COEFFICIENT", "AREA", "PL", "TOUTINIT"]
HYD_OUT = "load_vec load_vec_nodes_from load_vec_nodes_to df_dm df_dm_nodes df_dp df_dp1 dp_frict_loss".split()
JAC = {"df_dm", "df_dm_nodes", "df_dp", "df_dp1", "dfn_dt", "dfnt_dt", "dfnt_dtout", "dfb_dt", "dfb_dtout",
       "der_p_m", "der_p_m1"}


def twin_defs(n, nan_variant=False):
    """name -> (mkargs, f_np, f_nb, output names)"""
    defs = {}

    def mk_incomp():
        bp = _branch_pit(n, HYD_COLS, nan_m=0 if nan_variant else None)
        return (bp, _arr("dl", n), _arr("pi", n), _arr("pj", n), _arr("dh", n), _arr("rho", n))
    defs["hyd_incomp"] = (mk_incomp, tb.derivatives_hydraulic_incomp_np, tbn.derivatives_hydraulic_incomp_numba, HYD_OUT)

    def mk_comp():
        bp = _branch_pit(n, HYD_COLS, nan_m=0 if nan_variant else None)
        npit = _node_pit(n + 1, ["TINIT"])
        return (npit, bp, _arr("lam", n), _arr("dl", n), _arr("pi", n), _arr("pj", n), _arr("dh", n), _arr("cf", n),
                _arr("dc", n), _arr("dcj", n), _arr("rho", n), _arr("rhon", n))
    defs["hyd_comp"] = (mk_comp, tb.derivatives_hydraulic_comp_np, tbn.derivatives_hydraulic_comp_numba, HYD_OUT)

    def mk_lam():
        return (_arr("m", n), _arr("d", n), _arr("k", n), _arr("eta", n), _arr("area", n))
    defs["lambda_incomp"] = (mk_lam, tb.calc_lambda_nikuradse_incomp_np, tbn.calc_lambda_nikuradse_incomp_numba,
                             ["re", "lambda_laminar", "lambda_nikuradse"])
    defs["lambda_comp"] = (mk_lam, tb.calc_lambda_nikuradse_comp_np, tbn.calc_lambda_nikuradse_comp_numba,
                           ["re", "lambda_laminar", "lambda_nikuradse"])

    def mk_pm():
        return (_arr("pi", n), _arr("pj", n))
    defs["medium_pressure"] = (mk_pm, tb.calc_medium_pressure_with_derivative_np,
                               tbn.calc_medium_pressure_with_derivative_numba, ["p_m", "der_p_m", "der_p_m1"])

    def mk_dv():
        npit = _node_pit(n + 1, ["TINIT", "HEIGHT", "PINIT", "PAMB"])
        return (npit, np.arange(n, dtype=np.int32), np.arange(1, n + 1, dtype=np.int32))
    defs["derived_values"] = (mk_dv, tb.calc_derived_values_np, tbn.calc_derived_values_numba,
                              ["tinit_branch", "height_difference", "p_init_i_abs", "p_init_i1_abs"])

    def mk_th(transient):
        def mk():
            from pandapipes.idx_branch import TOUTINIT
            from pandapipes.idx_node import TINIT
            bp = _branch_pit(n, ["MDOTINIT", "LENGTH", "TEXT", "ALPHA", "DO", "TL", "QEXT", "AREA", "TOUTINIT"],
                             nan_m=0 if nan_variant else None)
            npit = _node_pit(n + 1, ["TINIT"])
            fn_ = np.arange(n, dtype=np.int32)
            tn_ = np.arange(1, n + 1, dtype=np.int32)
            lk = -np.ones(40, dtype=np.int32)
            lk[TOUTINIT] = 0
            lkn = -np.ones(20, dtype=np.int32)
            lkn[TINIT] = 0
            old_b = np.empty((n, 1), dtype=object)
            old_n = np.empty((n + 1, 1), dtype=object)
            for i in range(n):
                old_b[i, 0] = real("tvor%d" % i)
            for i in range(n + 1):
                old_n[i, 0] = real("tnvor%d" % i)
            return (npit, bp, old_n, lkn, old_b, lk, fn_, tn_, npit[fn_, TINIT], bp[:, TOUTINIT], npit[tn_, TINIT],
                    npit[:, TINIT], _arr("cpn", n), _arr("cpb", n), _arr("rho", n),
                    real("dt") if transient else None, np.bool_(transient), real("amb"))
        return mk
    th_out = "fn dfn_dt fnt dfnt_dt dfnt_dtout fb dfb_dt dfb_dtout infeed".split()
    defs["thermal_steady"] = (mk_th(False), tb.derivatives_thermal_np, tbn.derivatives_thermal_numba, th_out)
    defs["thermal_transient"] = (mk_th(True), tb.derivatives_thermal_np, tbn.derivatives_thermal_numba, th_out)
    return defs


def _pyfunc(f):
    return getattr(f, "py_func", f)


def explore_fn(fn, mk, A, max_paths):
    def run():
        return fn(*mk())
    return H.explore(run, A, max_paths=max_paths, feas_timeout_ms=1500)


def as_list(o, name):
    if name == "infeed":
        return o
    return list(np.asarray(o, dtype=object).ravel())


def twin_worker(job):
    n = job["n"]
    H.install(numba_pyfunc=True)
    defs = twin_defs(n, nan_variant=job.get("nan", False))
    mk, f_np, f_nb, outs = defs[job["twin"]]
    A = [z3.Real("cpb%d" % i) > 0 for i in range(n)] + [z3.Real("cpn%d" % i) > 0 for i in range(n)] + \
        [z3.Real("dt") > 0] + stubs.named_constants()[1]
    # physically admissible kernel inputs
    for i in range(n):
        for nm in ("length", "alpha", "do", "loss_coefficient"):
            A.append(z3.Real("%s%d" % (nm, i)) >= 0)
        for nm in ("area", "d", "rho", "rhon", "k", "eta", "lambda", "lam", "cf"):
            A.append(z3.Real("%s%d" % (nm, i)) > 0)
        for nm in ("pi", "pj"):
            A.append(z3.Real("%s%d" % (nm, i)) > 0)       # absolute pressures
    budget = job.get("max_paths", 128)
    ex1 = explore_fn(f_np, mk, A, budget)
    ex2 = explore_fn(_pyfunc(getattr(tbn, f_nb.__name__, f_nb)), mk, A, budget)
    viol, notes, errs = [], [], []
    for e in (ex1, ex2):
        for p in e.paths:
            if p.exc is not None:
                errs.append("%s raised %r" % (job["twin"], p.exc))
    ex1.paths = [p for p in ex1.paths if p.exc is None]
    ex2.paths = [p for p in ex2.paths if p.exc is None]
    for p1 in ex1.paths:
        for p2 in ex2.paths:
            hy = A + p1.path + p2.path + p1.defined + p2.defined
            r, _ = D.reachable(hy, timeout_ms=4000)
            if r == 'unsat':
                D.STATS.reach_failed -= 1
                continue
            pair_reachable = (r == 'sat')      # 'unknown' (solver deadline): the two paths may be incompatible
            for nm, a, b in zip(outs, p1.value, p2.value):
                if nm == "infeed":
                    s1 = set(int(v) for v in a)
                    s2 = set(int(i) for i, v in enumerate(b) if v) if (len(b) and isinstance(b[0], (bool, np.bool_))) \
                        else set(int(v) for v in b)
                    D.STATS.obligations += 1
                    if s1 == s2:
                        D.STATS.rewriter += 1
                    elif not pair_reachable:
                        # a structural difference between two paths that were not shown to be jointly reachable is no
                        # counterexample: reported as inconclusive
                        job.setdefault("_inconclusive", []).append("%s.infeed on a path pair of unknown joint reachability" % job["twin"])
                    else:
                        viol.append({"fingerprint": "C07/twin/%s/%s" % (job["twin"], nm),
                                     "detail": {"twin": job["twin"], "output": nm, "np": sorted(s1), "numba": sorted(s2)},
                                     "replay": {"kind": "twin", "twin": job["twin"], "n": n, "output": nm, "values": {}}})
                    continue
                la, lb = as_list(a, nm), as_list(b, nm)
                if len(la) != len(lb):
                    errs.append("%s.%s: shapes differ" % (job["twin"], nm))
                    continue
                for i, (x, y) in enumerate(zip(la, lb)):
                    if is_nan(x) or is_nan(y):
                        D.STATS.obligations += 1
                        if is_nan(x) and is_nan(y):
                            D.STATS.rewriter += 1
                        elif nm not in JAC and not pair_reachable:
                            job.setdefault("_inconclusive", []).append("%s.%s NaN on one side, path pair of unknown joint reachability" % (job["twin"], nm))
                        elif nm not in JAC:
                            viol.append({"fingerprint": "C07/twin/%s/%s" % (job["twin"], nm),
                                         "detail": {"twin": job["twin"], "output": nm, "nan": "one side only"},
                                         "replay": {"kind": "twin", "twin": job["twin"], "n": n, "output": nm,
                                                    "nan": job.get("nan", False), "values": {}}})
                        continue
                    goal = _t(x) == _t(y)
                    r, m, how = D.check(hy, goal, sample="%s.%s[%d]" % (job["twin"], nm, i), timeout_ms=15000)
                    if r == 'sat':
                        vals = dict(m or {})
                        if nm in JAC:
                            notes.append("Jacobian-type output %s.%s differs (not a violation by itself)" % (job["twin"], nm))
                            D.STATS.sat -= 1
                        else:
                            viol.append({"fingerprint": "C07/twin/%s/%s" % (job["twin"], nm),
                                         "detail": {"twin": job["twin"], "output": nm, "element": i},
                                         "replay": {"kind": "twin", "twin": job["twin"], "n": n, "output": nm, "element": i,
                                                    "nan": job.get("nan", False), "values": vals}})
                    elif r == 'unknown':
                        job.setdefault("_inconclusive", []).append("%s.%s[%d]" % (job["twin"], nm, i))
    ex1.paths = ex1.paths + ex2.paths
    ex1.nqueries += ex2.nqueries
    ex1.solver_s += ex2.solver_s
    ex1.truncated = ex1.truncated or ex2.truncated
    r = finish_worker(job, ex1, viol, errors=errs)
    r["samples"] = r["samples"] + [{"note": n_} for n_ in sorted(set(notes))[:3]]
    return r


# ---- concrete replay of a kernel-twin counterexample on the *compiled* numba kernel -------------
def replay_twin(rs):
    n = rs["n"]
    vals = rs.get("values", {})

    def val(name, default=0.7):
        v = vals.get(name)
        return float(v) if v is not None else default
    import svx.sym as symmod
    # build float arguments by running the symbolic constructors and evaluating each Sym
    from svx.evalterm import evaluate

    class Env(dict):
        def __missing__(self, k):
            return val(k, 0.9)
    env = Env({k: float(v) for k, v in vals.items() if v is not None})
    defs = twin_defs(n, nan_variant=rs.get("nan", False))
    mk, f_np, f_nb, outs = defs[rs["twin"]]

    def conc(a):
        if isinstance(a, np.ndarray) and a.dtype == object:
            out = np.empty(a.shape, dtype=np.float64)
            for i, v in np.ndenumerate(a):
                out[i] = evaluate(v.t, env) if isinstance(v, Sym) else float(v)
            return out
        if isinstance(a, Sym):
            return float(evaluate(a.t, env))
        return a
    args = [conc(a) for a in mk()]
    args2 = [a.copy() if isinstance(a, np.ndarray) else a for a in args]
    if rs["twin"].startswith("thermal"):
        args[15] = args2[15] = (args[15] if args[15] is not None else 1.0)
    o1 = f_np(*args)
    o2 = f_nb(*args2)       # the compiled kernel
    worst = 0.0
    det = {}
    for nm, a, b in zip(outs, o1, o2):
        if nm != rs["output"]:
            continue
        if nm == "infeed":
            s1 = set(int(v) for v in a)
            s2 = set(int(i) for i, v in enumerate(b) if v) if b.dtype == bool else set(int(v) for v in b)
            det[nm] = [sorted(s1), sorted(s2)]
            worst = 1.0 if s1 != s2 else 0.0
            continue
        a, b = np.asarray(a, dtype=float).ravel(), np.asarray(b, dtype=float).ravel()
        det[nm] = [a.tolist(), b.tolist()]
        for x, y in zip(a, b):
            if np.isnan(x) != np.isnan(y):
                worst = 1.0
            elif not np.isnan(x):
                worst = max(worst, abs(x - y) / (1e-300 + abs(x) + abs(y)) if (x != y) else 0.0)
    return worst > 1e-9, det


# ---- end to end -------------------------------------------------------------------------------------
def e2e_worker(job):
    spec = job["spec"]
    H.install(numba_pyfunc=True)
    kw = dict(mode=job.get("pfmode", "hydraulics"))
    ra = equiv.RunSpec(spec, dict(kw, use_numba=False))
    rb = equiv.RunSpec(spec, dict(kw, use_numba=True))
    return equiv.equiv_worker(job, ra, rb, fp_prefix="C07/e2e", replay_kind="e2e")


def replay_e2e(rs):
    from svx.common import concrete_pipeflow
    spec = rs["spec"]
    nets_ = []
    for numba in (False, True):
        net, _ = nets.build(spec, nets.concrete_valuer(rs.get("values", {})))
        ok, err = concrete_pipeflow(net, use_numba=numba, mode=rs.get("pfmode") or "hydraulics", tol_p=1e-9, tol_m=1e-9,
                                    tol_res=1e-9, max_iter_hyd=200)
        nets_.append((net, ok, err))
    (na, oka, ea), (nb_, okb, eb) = nets_
    if oka != okb:
        return True, {"convergence differs": [ea, eb]}
    if not oka:
        # solver's values do not converge: nominal inputs
        if rs.get("values"):
            return replay_e2e(dict(rs, values={}))
        return False, {"both fail": ea}
    worst, where = equiv.max_result_gap(na, nb_)
    return worst > 1e-6, {"worst": worst, "where": where}


# ---- matrix-update option -------------------------------------------------------------------------------
def update_worker(job):
    """two consecutive symbolic calls with only_update_hydraulic_matrix + reuse_internal_data, loads
    changed between them, vs. a plain call with the second call's loads"""
    spec = job["spec"]
    H.install(numba_pyfunc=bool(job.get("numba")))
    mode = job.get("pfmode") or "hydraulics"
    kw_upd = dict(mode=mode, use_numba=bool(job.get("numba")), only_update_hydraulic_matrix=True,
                  reuse_internal_data=True)
    kw_plain = dict(mode=mode, use_numba=bool(job.get("numba")))
    # job["ncalls"] consecutive calls on one net: the structure is stored by the first, reused by the second (whose solve
    # works on a matrix built from the stored arrays) and read again by the third
    ra = equiv.RunSpec(spec, kw_upd, pre_calls=[dict(kw_upd) for _ in range(int(job.get("ncalls", 2)) - 1)],
                       relabel_loads_between=True)
    rb = equiv.RunSpec(spec, kw_plain)
    return equiv.equiv_worker(job, ra, rb, fp_prefix="C07/update", replay_kind="update")


def replay_update(rs):
    from svx.common import concrete_pipeflow
    spec = rs["spec"]
    vals = rs.get("values", {})
    first = {k[:-len("@first")]: v for k, v in vals.items() if k.endswith("@first")}
    second = {k: v for k, v in vals.items() if not k.endswith("@first")}
    numba = bool(rs.get("numba"))
    kw = dict(mode=rs.get("pfmode") or "hydraulics", use_numba=numba, tol_p=1e-9, tol_m=1e-9, tol_res=1e-7, tol_T=1e-8,
              max_iter_hyd=200, max_iter_therm=200, max_iter_bidirect=200)
    net, names = nets.build(spec, nets.concrete_valuer(dict(second, **first)))
    ok1, e1 = concrete_pipeflow(net, only_update_hydraulic_matrix=True, reuse_internal_data=True, **kw)
    # change the loads, keep everything else
    for tbl in ("sink", "source", "mass_storage"):
        if tbl in net and len(net[tbl]):
            for ix in net[tbl].index:
                nm = nets.sym_name(tbl, "mdot_kg_per_s", ix)
                net[tbl].at[ix, "mdot_kg_per_s"] = float(second.get(nm, names.get(nm, 0.3) * 1.7))
    ok2, e2 = concrete_pipeflow(net, only_update_hydraulic_matrix=True, reuse_internal_data=True, **kw)
    netp, _ = nets.build(spec, nets.concrete_valuer(second))
    for tbl in ("sink", "source", "mass_storage"):
        if tbl in netp and len(netp[tbl]):
            netp[tbl]["mdot_kg_per_s"] = net[tbl]["mdot_kg_per_s"].values
    okp, ep = concrete_pipeflow(netp, **kw)
    if ok2 != okp:
        return True, {"convergence differs": [e2, ep]}
    if not okp:
        return False, {"both fail": ep}
    worst, where = equiv.max_result_gap(net, netp)
    return worst > 1e-6, {"worst": worst, "where": where}


# ---------------------------------------------------------------------------------------------------------
def jobs(tier, seed):
    out = []
    sizes = [1, 2] if tier == "quick" else [2, 3]
    for tw in ["hyd_incomp", "hyd_comp", "lambda_incomp", "lambda_comp", "medium_pressure", "derived_values",
               "thermal_steady", "thermal_transient"]:
        for n in sizes:
            if tw in ("hyd_comp", "thermal_transient", "thermal_steady") and n > (1 if tier == "quick" else 2):
                continue
            out.append({"name": "twin/%s/n%d" % (tw, n), "kind": "twin", "twin": tw, "n": n,
                        "max_paths": 96 if tier == "quick" else 400})
        if tw in ("hyd_incomp", "hyd_comp", "thermal_steady"):
            out.append({"name": "twin/%s/nanflow" % tw, "kind": "twin", "twin": tw, "n": 2 if tw == "hyd_incomp" else 1,
                        "nan": True, "max_paths": 96})
    specs = [catalog.w_line3(), catalog.w_mesh4(), catalog.w_components(), catalog.g_line3(), catalog.g_components(),
             catalog.w_shuffled(), catalog.w_oos(), catalog.g_mesh()]
    rng = random.Random(7000 + seed)
    for i in range(4 if tier == "quick" else 40):
        specs.append(catalog.random_spec(rng, name="rand%d_s%d" % (i, seed)))
    for s in specs:
        out.append({"name": "e2e/%s" % s["name"], "kind": "e2e", "spec": s})
    gas_heat = {"name": "g_heat", "fluid": "gas", "nj": 3, "jh": [0, 4, 2], "elems": [
        catalog.E("ext_grid", j=0, t_k=330.0), catalog.E("pipe", f=0, to=1, u=4.0, sections=2), catalog.E("pipe", f=2, to=1, u=3.0),
        catalog.E("sink", j=2), catalog.E("sink", j=1)]}
    for s in [catalog.w_circ_loop(), catalog.w_circ_mass(), gas_heat]:
        out.append({"name": "e2e-seq/%s" % s["name"], "kind": "e2e", "spec": s, "pfmode": "sequential"})
    for s in [catalog.w_line3(), catalog.w_mesh4(), catalog.g_line3(), catalog.w_components(), catalog.g_components()]:
        for numba in (False, True):
            out.append({"name": "update/%s/%s" % (s["name"], "numba" if numba else "numpy"), "kind": "update", "spec": s,
                        "numba": numba})
    for s in [catalog.w_components(), catalog.g_components()]:
        out.append({"name": "update3/%s/numpy" % s["name"], "kind": "update", "spec": s, "numba": False, "ncalls": 3})
    # the option in calculations with a thermal stage (the thermal matrix has another structure than the hydraulic one)
    for s, m in [(catalog.w_heat_line(), "sequential"), (catalog.w_circ_loop(), "sequential"), (catalog.w_circ_mass(), "bidirectional")]:
        out.append({"name": "update/%s/%s" % (s["name"], m), "kind": "update", "spec": s, "numba": False, "pfmode": m})
    return out


def worker(job):
    return {"twin": twin_worker, "e2e": e2e_worker, "update": update_worker}[job["kind"]](job)


def replay(rs):
    return {"twin": replay_twin, "e2e": replay_e2e, "update": replay_update}[rs["kind"]](rs)


def main(argv=None):
    return runner.run(PROP, "checks.c07", jobs, META, argv)
