"""C10 — temperatures obey the pipe cooling law, energy-conserving mixing and fixed feeds.

The real pipeflow (sequential / bidirectional) is executed symbolically at an arbitrary thermal state;
the residual rows the real code assembled for the thermal Newton system are compared, as terms over
all inputs, with the documented laws (a state is a solution iff all rows vanish, so equal rows mean
equal solutions):
  cooling   row of a flowing pipe section  ==  T_ext + (T_in - T_ext) exp(-U pi d_o L / (c_m |m|)) - T_out
            with T_in the temperature of the upstream node for the actual flow direction
  mixing    row of a non-feed node         ==  sum over entering streams of c_i |m_i| (T_out,i - T_node),
            c_i = (cp(T_out,i) + cp(T_node)) / 2   (the mean the branch heat terms use)
  feeds     temperature-fixing external grids / circulation pumps impose their temperature
  bounds    without heat sources every outlet temperature lies between inlet and ambient (0 < exp <= 1)
"""
import random

import numpy as np
import z3

from svx import harness as H, nets, catalog, stubs, runner, discharge as D, thermal
from svx.catalog import E
from svx.sym import Sym, _t, EXP
from svx.common import concrete_pipeflow, is_nan

PROP = "C10"

META = {
    "level": "model_checking",
    "functions": ["pf.derivative_calculation.calculate_derivatives_thermal", "derivative_toolbox.derivatives_thermal_np",
                  "derivative_toolbox_numba.derivatives_thermal_numba.py_func", "properties_toolbox.get_branch_cp",
                  "build_system_matrix(heat_mode=True)", "pipeflow.solve_temperature (FROM_NODE_T_SWITCHED)",
                  "check_infeed_number", "ExtGrid / CirculationPump thermal entries", "Pipe.create_pit_branch_entries"],
    "files": ["src/pandapipes/pf/derivative_toolbox.py", "src/pandapipes/pf/derivative_toolbox_numba.py",
              "src/pandapipes/pf/derivative_calculation.py", "src/pandapipes/pf/build_system_matrix.py",
              "src/pandapipes/pipeflow.py", "src/pandapipes/component_models/pipe_component.py"],
    "stubs": stubs.STUB_LIST,
    "assumptions": ["exact fixed point: a thermal state is a solution iff every residual row vanishes; rows are compared "
                    "as terms, the finite-tolerance gap is outside", "exp uninterpreted with exp(0) = 1 and 0 < exp(x) <= 1 "
                    "for x <= 0 (bounds clause only)", "heat capacity an arbitrary positive function of temperature",
                    "flow directions / zero flows are selected by witnesses (all forward, all reverse, one branch at zero flow)"],
    "bound": {"quick": "4 heating structures (tree with 2- and 3-stream mixing junctions, loop with circulation pump, S<=3) x "
                       "{sequential, bidirectional} x {numpy, numba py_func} x 3 flow regimes",
              "thorough": "+ random trees J<=5, all 2^B direction patterns"},
    "outside": ["finite tolerance", "transient mode", "pipes with qext (the model warns itself)"],
    "rule": "one obligation per thermal row (branch or node) and per feeder",
}


def specs():
    S = []
    S.append({"name": "tree_mix2", "fluid": "water", "nj": 4, "elems": [
        E("ext_grid", j=0, t_k=360.0), E("pipe", f=0, to=1, sections=2, u=6.0, text_k=280.0, do_mm=125.0, index=0),
        E("pipe", f=1, to=2, u=4.0, do_mm=118.0, index=1), E("pipe", f=1, to=3, u=5.0, index=2), E("pipe", f=3, to=2, u=3.0, do_mm=140.0, index=3),
        E("sink", j=2), E("sink", j=3)]})
    S.append({"name": "mix3", "fluid": "water", "nj": 5, "elems": [
        E("ext_grid", j=0, t_k=360.0), E("ext_grid", j=1, t_k=340.0, type="pt"), E("ext_grid", j=2, type="t", t_k=350.0),
        E("pipe", f=0, to=3, u=6.0, index=0), E("pipe", f=1, to=3, u=4.0, do_mm=118.0, index=1), E("pipe", f=3, to=2, u=5.0, index=2),
        E("pipe", f=2, to=4, u=5.0, sections=3, index=3), E("source", j=2), E("sink", j=4), E("sink", j=3)]})
    S.append(catalog.w_circ_loop())
    S.append({"name": "loop_hex", "fluid": "water", "nj": 4, "elems": [
        E("circ_pump_mass", ret=3, flow=0, t_flow=355.0), E("pipe", f=0, to=1, u=5.0, sections=2, do_mm=130.0), E("pipe", f=2, to=3, u=5.0),
        E("heat_exchanger", f=1, to=2, qext_w=8000.0), E("valve", j=1, el=2, et="ju")]})
    return S


def _pipe_inputs(net, ix, spec=None):
    pt = net.pipe
    S = int(pt.at[ix, "sections"])
    do = pt.at[ix, "outer_diameter_mm"]
    if is_nan(do):
        do = pt.at[ix, "inner_diameter_mm"]
    text = pt.at[ix, "text_k"]
    if spec is not None:
        # whether the pipe has its own ambient temperature is read from the *description*, not from the table after the
        # run (a calculation that writes its default into the table would make itself consistent)
        pipes = [e for e in spec["elems"] if e["t"] == "pipe"]
        pos = list(pt.index).index(ix)
        if pos < len(pipes) and "text_k" in pipes[pos] and pipes[pos]["text_k"] is None:
            text = float("nan")
    if is_nan(text):
        text = net._options["ambient_temperature"]
    return dict(U=_t(pt.at[ix, "u_w_per_m2k"]), L=_t(pt.at[ix, "length_km"]) * 1000 / S, do=_t(do) / 1000, text=_t(text), S=S)


def obligations(st, names, job):
    net = st.net
    obs = []
    pi_ = z3.Real("pi")
    if st.sys is None:
        return obs
    for b in st.sys["branch_names"]:
        tbl, ix, k = b.split(":")
        if tbl != "pipe":
            continue
        row = _t(st.rows["Tout|" + b][0])
        inp = _pipe_inputs(net, int(ix), job.get("spec"))
        tin, tout, m = _t(st.T[st.upstream(b)]), _t(st.Tout[b]), _t(st.m[b])
        args = thermal.exp_args(row)
        if len(args) == 1:
            cm = thermal.cbar(st.T[st.upstream(b)], st.Tout[b])
            want_arg = -(inp["U"] * pi_ * inp["do"] * inp["L"]) / (cm * thermal.absz(m))
            obs.append({"label": "pipe %s section %s: exponent = -U pi d_o L / (c_m |m|)" % (ix, k), "fp": "C10/cooling/exponent",
                        "goal": args[0] == want_arg, "replay": {"kind": "cooling"}})
            obs.append({"label": "pipe %s section %s: row = cooling law" % (ix, k), "fp": "C10/cooling/row",
                        "goal": row == inp["text"] + (tin - inp["text"]) * EXP(args[0]) - tout, "replay": {"kind": "cooling"}})
            # bounds: at a solution the outlet lies between inlet and ambient
            e = EXP(args[0])
            obs.append({"label": "pipe %s section %s: outlet between inlet and ambient" % (ix, k), "fp": "C10/bounds",
                        "rows": [st.rows["Tout|" + b][1], e > 0, e <= 1],
                        "goal": z3.Or(z3.And(tout >= inp["text"], tout <= tin), z3.And(tout <= inp["text"], tout >= tin)),
                        "replay": {"kind": "cooling"}})
        elif len(args) == 0:
            amb = _t(net._options["ambient_temperature"])
            obs.append({"label": "pipe %s section %s without flow: outlet at ambient temperature" % (ix, k),
                        "fp": "C10/cooling/noflow", "goal": row == amb - tout, "replay": {"kind": "cooling"}})
    # reported values: t_outlet_k of every pipe is the outlet temperature of the section through which the fluid leaves
    # it, t_from_k / t_to_k and res_junction.t_k are the temperatures of the end junctions
    for ix in net.pipe.index:
        S = int(net.pipe.at[ix, "sections"])
        secs = ["pipe:%s:%d" % (ix, k) for k in range(S)]
        if any(b_ not in st.Tout for b_ in secs) or is_nan(net.res_pipe.at[ix, "t_outlet_k"]) or secs[0] not in st.active_branches:
            continue
        bout = secs[0] if st.switched[secs[-1]] else secs[-1]
        obs.append({"label": "pipe %s: reported t_outlet_k = outlet temperature of its own flow-outlet section" % ix,
                    "fp": "C10/reported/t_outlet", "goal": _t(net.res_pipe.at[ix, "t_outlet_k"]) == _t(st.Tout[bout]),
                    "replay": {"kind": "cooling"}})
        obs.append({"label": "pipe %s: reported t_from_k / t_to_k = end junction temperatures" % ix, "fp": "C10/reported/t_ends",
                    "goal": z3.And(_t(net.res_pipe.at[ix, "t_from_k"]) == _t(st.T[st.fn[secs[0]]]),
                                   _t(net.res_pipe.at[ix, "t_to_k"]) == _t(st.T[st.tn[secs[-1]]])), "replay": {"kind": "cooling"}})
    # mixing rows
    from pandapipes.idx_node import INFEED
    infeed = {st.nn[i] for i in range(len(st.nn)) if bool(st.npit[i, INFEED])}
    from pandapipes.pf.derivative_toolbox import _branches_not_zero_flow
    flowing = {b for b in st.sys["branch_names"] if len(thermal.exp_args(_t(st.rows["Tout|" + b][0]))) >= 1
               or not b.startswith("pipe")}
    for n in st.sys["node_names"]:
        if n in infeed:
            continue
        ins = [b for b in st.sys["branch_names"] if st.downstream(b) == n and _is_flowing(st, b)]
        if not ins:
            continue
        tn = _t(st.T[n])
        want = z3.RealVal(0)
        for b in ins:
            want = want + thermal.cbar(st.Tout[b], st.T[n]) * thermal.absz(_t(st.m[b])) * (_t(st.Tout[b]) - tn)
        obs.append({"label": "node %s: energy-conserving mix of %d streams" % (n, len(ins)), "fp": "C10/mixing",
                    "goal": _t(st.rows["T|" + n][0]) == want, "replay": {"kind": "mixing"}, "timeout_ms": 15000})
    # fixed feeds
    if len(net.ext_grid):
        eg = net.ext_grid
        by_j = {}
        for ix in eg.index:
            if eg.at[ix, "in_service"] and eg.at[ix, "type"] in ("t", "pt"):
                by_j.setdefault(int(eg.at[ix, "junction"]), []).append(eg.at[ix, "t_k"])
        for j, lst in by_j.items():
            r = net.res_junction.at[j, "t_k"]
            if is_nan(r):
                continue
            obs.append({"label": "junction %s carries the feeder temperature" % j, "fp": "C10/feed",
                        "goal": _t(r) == sum((_t(v) for v in lst), z3.RealVal(0)) / len(lst), "replay": {"kind": "feed"}})
    for tbl in ("circ_pump_pressure", "circ_pump_mass"):
        if tbl in net and len(net[tbl]):
            t = net[tbl]
            for ix in t.index:
                r = net["res_" + tbl].at[ix, "t_outlet_k"]
                if is_nan(r) or t.at[ix, "type"] not in ("pt", "t", "auto"):
                    continue
                obs.append({"label": "%s %s feeds with its flow temperature" % (tbl, ix), "fp": "C10/feed",
                            "goal": _t(r) == _t(t.at[ix, "t_flow_k"]), "replay": {"kind": "feed"}})
    return obs


def _is_flowing(st, b):
    """on this path the real code treated branch b as flowing (decided by its own row's shape for pipes,
    by the witness for the others)"""
    from svx.evalterm import evaluate
    try:
        v = evaluate(_t(st.m[b]), st.p.witness, H.witness_funcs())
        return abs(v) > 1e-10
    except Exception:
        return True


def witnesses(names, p0, job):
    base = dict(names)
    ws = [H.Witness(base)]
    if not job["spec"]["name"].startswith(("w_circ", "loop")):
        ws.append(H.Witness(base, kinds={"m": -0.6}))
        mnames = [v[1] for k, v in p0.havoc.items() if k[0] == "m" and "pipe" in v[1]]
        for mn in mnames[:2]:
            ws.append(H.Witness(dict(names, **{mn: 0.0})))
    return ws


def rerun_spec():
    """pipes without their own ambient temperature (text_k unset): the option ambient_temperature of the call applies"""
    return {"name": "w_text_default", "fluid": "water", "nj": 3, "elems": [
        E("ext_grid", j=0, t_k=350.0), E("pipe", f=0, to=1, u=6.0, text_k=None), E("pipe", f=2, to=1, u=4.0, text_k=None, sections=2),
        E("sink", j=2), E("sink", j=1)]}


def labels_spec():
    """heat line with pipe labels whose sorting permutation is a 3-cycle and different section counts"""
    return {"name": "w_heat_labels", "fluid": "water", "nj": 4, "elems": [
        E("ext_grid", j=0, t_k=355.0), E("pipe", f=0, to=1, u=5.0, sections=3, index=12), E("pipe", f=1, to=2, u=6.0, sections=1, index=10),
        E("pipe", f=3, to=2, u=4.0, sections=2, index=11), E("sink", j=3), E("sink", j=1)]}


def jobs(tier, seed):
    out = []
    for numba in (False, True):
        out.append({"name": "w_heat_labels/sequential/%s" % ("numba" if numba else "numpy"), "spec": labels_spec(),
                    "pfmode": "sequential", "numba": numba})
    for numba in (False, True):
        # the examined call follows an earlier call with another ambient temperature on the same net object
        out.append({"name": "w_text_default/rerun/%s" % ("numba" if numba else "numpy"), "spec": rerun_spec(), "pfmode": "sequential",
                    "numba": numba, "pre_run": {"mode": "hydraulics", "ambient_temperature": 268.15},
                    "pfkw": {"ambient_temperature": 310.0}})
        out.append({"name": "w_text_default/fresh/%s" % ("numba" if numba else "numpy"), "spec": rerun_spec(), "pfmode": "sequential",
                    "numba": numba, "pfkw": {"ambient_temperature": 310.0}})
    sp = specs()
    if tier == "thorough":
        import random
        rng = random.Random(10000 + seed)
        sp += [catalog.random_heat_spec(rng, name="rand_heat%d_s%d" % (i, seed)) for i in range(16)]
        sp += [catalog.random_loop_spec(rng, name="loop_rand%d_s%d" % (i, seed)) for i in range(8)]
    for s in sp:
        loop = s["name"].startswith(("w_circ", "loop"))
        for mode in (("sequential", "bidirectional") if loop else ("sequential",)):
            for numba in (False, True):
                out.append({"name": "%s/%s/%s" % (s["name"], mode, "numba" if numba else "numpy"), "spec": s, "pfmode": mode,
                            "numba": numba})
    return out


def worker(job):
    return thermal.thermal_worker(job, obligations, "C10", witnesses_fn=witnesses, pfkw=job.get("pfkw"))


def replay(rs):
    """real pipeflow to convergence on the counterexample's inputs (nominal inputs as fallback); the
    documented laws are evaluated numerically on the result tables"""
    import math
    spec = rs["spec"]
    mode = rs.get("pfmode") or "sequential"
    pfkw = dict(rs.get("pfkw") or {})
    for values in (rs.get("values", {}), {}):
        for numba in (False, True):
            net, _ = nets.build(spec, nets.concrete_valuer(values))
            text_before = net.pipe["text_k"].copy()
            if rs.get("pre_run"):
                pre = {k: (268.15 if isinstance(v, str) and v.startswith("sym:") else v) for k, v in rs["pre_run"].items()}
                concrete_pipeflow(net, use_numba=numba, **pre)
            ok, err = concrete_pipeflow(net, use_numba=numba, mode=mode, tol_p=1e-10, tol_m=1e-10, tol_res=1e-10, tol_T=1e-10,
                                        max_iter_hyd=300, max_iter_therm=300, max_iter_bidirect=300, **pfkw)
            if not ok:
                continue
            # the ambient temperature of the law is the one the user gave: text_k of the pipe, else the option of *this* call
            net.pipe["text_k"] = text_before.fillna(float(net._options["ambient_temperature"]))
            worst, where = _numeric_laws(net)
            if worst > 1e-6:
                return True, {"worst": worst, "where": where, "numba": numba}
    return False, {}


def _numeric_laws(net):
    """cooling law per single-section pipe and mixing per junction, from the result tables"""
    import math
    fl = net.fluid
    worst, where = 0.0, None
    cp = lambda T: float(fl.get_heat_capacity(T))      # noqa
    ins = {}
    for ix in net.pipe.index:
        r = net.res_pipe.loc[ix]
        m = r.mdot_from_kg_per_s
        if np.isnan(m) or abs(m) < 1e-8:
            continue
        tin, tout = (r.t_from_k, r.t_outlet_k) if m > 0 else (r.t_to_k, r.t_outlet_k)
        down = int(net.pipe.at[ix, "to_junction"] if m > 0 else net.pipe.at[ix, "from_junction"])
        ins.setdefault(down, []).append((abs(m), tout))
        if int(net.pipe.at[ix, "sections"]) != 1:
            continue
        do = net.pipe.at[ix, "outer_diameter_mm"]
        do = (do if not np.isnan(do) else net.pipe.at[ix, "inner_diameter_mm"]) / 1000
        text = net.pipe.at[ix, "text_k"]
        cm = (cp(tin) + cp(tout)) / 2
        want = text + (tin - text) * math.exp(-net.pipe.at[ix, "u_w_per_m2k"] * math.pi * do * net.pipe.at[ix, "length_km"] * 1000
                                               / (cm * abs(m)))
        g = abs(want - tout) / (1 + abs(tout))
        if g > worst:
            worst, where = g, "cooling law pipe %s: %r vs %r" % (ix, want, tout)
    for tbl in ("heat_exchanger", "heat_consumer", "valve", "flow_control"):
        if tbl in net and len(net[tbl]):
            fc, tc = ("junction", "element") if tbl == "valve" else ("from_junction", "to_junction")
            for ix in net[tbl].index:
                r = net["res_" + tbl].loc[ix]
                m = r.mdot_from_kg_per_s
                if np.isnan(m) or abs(m) < 1e-8:
                    continue
                down = int(net[tbl].at[ix, tc] if m > 0 else net[tbl].at[ix, fc])
                ins.setdefault(down, []).append((abs(m), r.t_outlet_k))
    fed = set(net.ext_grid.junction[net.ext_grid.type.isin(["t", "pt"]) & net.ext_grid.in_service].values) if len(net.ext_grid) else set()
    for tbl in ("circ_pump_pressure", "circ_pump_mass"):
        if tbl in net and len(net[tbl]):
            fed |= set(net[tbl].flow_junction.values)
    for j, lst in ins.items():
        if j in fed or np.isnan(net.res_junction.at[j, "t_k"]):
            continue
        tn = net.res_junction.at[j, "t_k"]
        resid = sum(mm * (cp(to) + cp(tn)) / 2 * (to - tn) for mm, to in lst)
        scale = sum(mm * cp(tn) for mm, to in lst) * max(1.0, max(abs(to - tn) for _, to in lst))
        g = abs(resid) / scale
        if g > worst:
            worst, where = g, "mixing at junction %s: residual %r (relative %r)" % (j, resid, g)
    return worst, where


def main(argv=None):
    return runner.run(PROP, "checks.c10", jobs, META, argv)
