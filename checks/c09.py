"""C09 — physically equivalent descriptions of a network give identical results.

Two-run equivalences on the real code (equiv.py), decided by z3 for all parameter values:
  reverse    swapping from/to of pipes, valves, heat exchangers only flips the sign of their flow
  loads      k sinks/sources/storages on a junction == one sink with the summed scaled flow
  absent     out-of-service element / closed valve == its absence
  shift      liquids: all fixed pressures + c  =>  all pressures + c, flows unchanged
  series     a pipe with n sections == n pipes of 1/n length in series (identity-mapped systems)
  sections   liquid, uniform temperature: the n section rows sum up to the row of the 1-section pipe
"""
import copy
import random

import numpy as np
import z3

from svx import harness as H, nets, catalog, stubs, runner, equiv, discharge as D
from svx.catalog import E
from svx.sym import Sym, _t, real, ENG
from svx.common import concrete_pipeflow, finish_worker, is_nan

PROP = "C09"

META = {
    "level": "model_checking",
    "functions": ["BranchWInternalsComponent.create_pit_branch_entries / Pipe.create_pit_*_entries (section expansion)",
                  "derivatives_hydraulic_* (m|m| symmetry)", "ConstFlow.create_pit_node_entries (aggregation)",
                  "internals_toolbox.get_from_nodes_corrected / solve_temperature direction switch",
                  "identify_active_nodes_branches / reduce_pit", "all extract_results"],
    "files": ["src/pandapipes/component_models/pipe_component.py",
              "src/pandapipes/component_models/abstract_models/branch_w_internals_models.py",
              "src/pandapipes/pf/derivative_toolbox.py", "src/pandapipes/pf/derivative_toolbox_numba.py",
              "src/pandapipes/component_models/abstract_models/const_flow_models.py",
              "src/pandapipes/pf/internals_toolbox.py", "src/pandapipes/pf/pipeflow_setup.py"],
    "stubs": stubs.STUB_LIST,
    "assumptions": ["same arbitrary pre-state in both descriptions, expressed in each description's coordinates "
                    "(m -> -m for a reversed branch, p -> p + c for shifted pressures)",
                    "reals instead of doubles", "sections clause: liquid, one temperature symbol for all junctions"],
    "bound": {"quick": "reverse: 4 structures x subsets of <=3 branches; loads: 3; absent: 3; shift: 3; series: 2 (S<=3); "
                       "sections: S in {2,3}, numpy + numba",
              "thorough": "reverse: every subset of reversible branches of 8 structures; series/sections up to S=4"},
    "outside": ["gases for shift and sections (not claimed by the property)", "thermal results of the series rewrite"],
    "rule": "one obligation per system entry / result cell / section-sum identity",
}

REVERSIBLE = ("pipe", "valve", "heat_exchanger")
SWAP_COLS = [("p_from_bar", "p_to_bar"), ("t_from_k", "t_to_k"), ("mdot_from_kg_per_s", "mdot_to_kg_per_s"),
             ("normfactor_from", "normfactor_to")]
SWAP_NEG_COLS = [("v_from_m_per_s", "v_to_m_per_s")]
NEG_COLS = ["v_mean_m_per_s", "vdot_m3_per_s", "vdot_norm_m3_per_s"]
NEG_COLS_LIQUID = ["dp_friction_loss_bar"]      # gases report |dp_friction_loss|


# ---- reverse -------------------------------------------------------------------------------------------
def reverse_spec(spec, which):
    """swap from/to of the elements at positions `which` (indices into spec['elems'])"""
    a = copy.deepcopy(spec)
    cnt = {}
    for e in a["elems"]:
        e.setdefault("index", cnt.get(e["t"], 0))
        cnt[e["t"]] = e["index"] + 1
    b = copy.deepcopy(a)
    flipped = []
    for k in which:
        e = b["elems"][k]
        if e["t"] == "valve":
            e["j"], e["el"] = e["el"], e["j"]
        else:
            e["f"], e["to"] = e["to"], e["f"]
        flipped.append((e["t"], e["index"], int(e.get("sections", 1))))
    return a, b, flipped


def reverse_worker(job):
    H.install(numba_pyfunc=bool(job["numba"]))
    a, b, flipped = reverse_spec(job["spec"], job["which"])
    kw = dict(mode=job["pfmode"], use_numba=bool(job["numba"]))
    # identity: section k of a reversed pipe is section S-1-k of the original; internal node k <-> S-2-k
    name_map, flip_names = {}, set()
    for t, ix, S in flipped:
        for k in range(S):
            name_map["%s:%s:%d" % (t, ix, k)] = "%s:%s:%d" % (t, ix, S - 1 - k)
            flip_names.add("%s:%s:%d" % (t, ix, S - 1 - k))
        if t == "pipe":
            for k in range(S - 1):
                name_map["pipe_nodes:%s:%d" % (ix, k)] = "pipe_nodes:%s:%d" % (ix, S - 2 - k)

    def is_flipped(nm):
        # nm: "m[pipe:0:1]" / "dx0[m|pipe:0:1]"
        if nm.startswith("m["):
            return nm[2:-1] in flip_names
        if "[m|" in nm:
            return nm.split("[m|", 1)[1][:-1] in flip_names
        return False

    ed = None
    ra = equiv.RunSpec(a, kw, edit_fn=ed)
    rb = equiv.RunSpec(b, kw, edit_fn=ed)
    rb.name_map = name_map
    rb.havoc_xform = lambda nm, v: (-v if is_flipped(nm) else v)
    rb.x_xform = lambda nm, v: (-v if is_flipped(nm) else v)
    rb.signs = {"m|" + n: -1 for n in flip_names}
    fl = {(t, ix) for t, ix, _ in flipped}

    def cells(neta, netb):
        out = []
        for lab, x, y in equiv.default_cells(neta, netb):
            key, rest = lab.split(".", 1)
            col, ix = rest.split("[")
            ix = int(ix[:-1])
            tbl = key[4:]
            if (tbl, ix) in fl:
                continue
            out.append((lab, x, y))
        for t, ix in fl:
            ta, tb_ = neta["res_" + t], netb["res_" + t]
            done = set()
            for c1, c2 in SWAP_COLS:
                if c1 in ta.columns and c2 in ta.columns:
                    out.append(("res_%s.%s[%s] (swapped)" % (t, c1, ix), ta.at[ix, c1], tb_.at[ix, c2]))
                    out.append(("res_%s.%s[%s] (swapped)" % (t, c2, ix), ta.at[ix, c2], tb_.at[ix, c1]))
                    done |= {c1, c2}
            for c1, c2 in SWAP_NEG_COLS:
                if c1 in ta.columns and c2 in ta.columns:
                    for u, w in ((c1, c2), (c2, c1)):
                        y = tb_.at[ix, w]
                        out.append(("res_%s.%s[%s] (swapped, negated)" % (t, u, ix), ta.at[ix, u], (-y if not is_nan(y) else y)))
                    done |= {c1, c2}
            for c in NEG_COLS + (NEG_COLS_LIQUID if a["fluid"] == "water" else []):
                if c in ta.columns:
                    x, y = ta.at[ix, c], tb_.at[ix, c]
                    out.append(("res_%s.%s[%s] (negated)" % (t, c, ix), x, (-y if not is_nan(y) else y)))
                    done.add(c)
            for c in ta.columns:
                # t_outlet_k of a hydraulics-only run is the untouched start value of the thermal unknown (the
                # temperature of the declared to-junction), not a result of the calculation
                if c not in done and not (c == "t_outlet_k" and job["pfmode"] == "hydraulics"):
                    out.append(("res_%s.%s[%s]" % (t, c, ix), ta.at[ix, c], tb_.at[ix, c]))
        return out

    return equiv.equiv_worker(job, ra, rb, fp_prefix="C09/reverse", replay_kind="reverse", cells_fn=cells,
                              replay_extra={"which": job["which"]}, fixed_point=True)


def replay_reverse(rs):
    a, b, flipped = reverse_spec(rs["spec"], rs["which"])
    fl = {(t, ix) for t, ix, _ in flipped}
    mode = rs.get("pfmode") or "hydraulics"
    for values in (rs.get("values", {}), {}):
        res = []
        for spec in (a, b):
            net, _ = nets.build(spec, nets.concrete_valuer(values))
            ok, err = concrete_pipeflow(net, use_numba=bool(rs.get("numba")), mode=mode, tol_p=1e-10, tol_m=1e-10,
                                        tol_res=1e-10, tol_T=1e-9, max_iter_hyd=300, max_iter_therm=300)
            res.append((net, ok, err))
        (na, oka, ea), (nb, okb, eb) = res
        if oka != okb:
            return True, {"convergence differs": [ea, eb]}
        if not oka:
            continue
        worst, where = 0.0, None
        for lab, x, y in _reverse_cells(na, nb, fl, mode):
            try:
                xn, yn = np.isnan(x), np.isnan(y)
            except TypeError:
                continue
            if xn or yn:
                if xn != yn:
                    worst, where = 1.0, lab
                continue
            g = abs(x - y) / (1 + abs(x) + abs(y))
            if g > worst:
                worst, where = g, "%s: %r vs %r" % (lab, x, y)
        return worst > 1e-6, {"worst": worst, "where": where}
    return False, {"both fail": True}


def _reverse_cells(neta, netb, fl, mode="hydraulics"):
    out = []
    for lab, x, y in equiv.default_cells(neta, netb):
        key, rest = lab.split(".", 1)
        col, ix = rest.split("[")
        if (key[4:], int(ix[:-1])) in fl:
            continue
        out.append((lab, x, y))
    for t, ix in fl:
        ta, tb_ = neta["res_" + t], netb["res_" + t]
        for c1, c2 in SWAP_COLS:
            if c1 in ta.columns and c2 in ta.columns:
                out.append(("res_%s.%s[%s]" % (t, c1, ix), ta.at[ix, c1], tb_.at[ix, c2]))
                out.append(("res_%s.%s[%s]" % (t, c2, ix), ta.at[ix, c2], tb_.at[ix, c1]))
        for c1, c2 in SWAP_NEG_COLS:
            if c1 in ta.columns and c2 in ta.columns:
                out.append(("res_%s.%s[%s]" % (t, c1, ix), ta.at[ix, c1], -tb_.at[ix, c2]))
                out.append(("res_%s.%s[%s]" % (t, c2, ix), ta.at[ix, c2], -tb_.at[ix, c1]))
        done = {c for pair in SWAP_COLS + SWAP_NEG_COLS for c in pair}
        for c in NEG_COLS + (NEG_COLS_LIQUID if not neta.fluid.is_gas else []):
            if c in ta.columns:
                out.append(("res_%s.%s[%s]" % (t, c, ix), ta.at[ix, c], -tb_.at[ix, c]))
                done.add(c)
        for c in ta.columns:
            if c not in done and not (c == "t_outlet_k" and mode == "hydraulics"):
                out.append(("res_%s.%s[%s]" % (t, c, ix), ta.at[ix, c], tb_.at[ix, c]))
    return out


# ---- loads aggregated --------------------------------------------------------------------------------------
def loads_worker(job):
    H.install(numba_pyfunc=bool(job["numba"]))
    a = copy.deepcopy(job["spec"])
    b = copy.deepcopy(a)
    # B: all loads of each junction replaced by one sink (index 0..), mdot set symbolically below
    loads = [e for e in a["elems"] if e["t"] in ("sink", "source", "mass_storage")]
    b["elems"] = [e for e in b["elems"] if e["t"] not in ("sink", "source", "mass_storage")]
    juncs = sorted({e["j"] for e in loads})
    for j in juncs:
        b["elems"].append(E("sink", j=j, index=900 + j))
    kw = dict(mode="hydraulics", use_numba=bool(job["numba"]))

    def edit_b(net):
        # summed scaled mass flow of the in-service loads of description A, as terms
        cnt = {}
        tot = {j: 0.0 for j in juncs}
        for e in a["elems"]:
            t = e["t"]
            if t not in ("sink", "source", "mass_storage"):
                continue
            ix = e.get("index", cnt.get(t, 0))
            cnt[t] = ix + 1
            if not e.get("in_service", True):
                continue
            sg = -1 if t == "source" else 1
            tot[e["j"]] = tot[e["j"]] + sg * real(nets.sym_name(t, "mdot_kg_per_s", ix)) * real(nets.sym_name(t, "scaling", ix))
        for j in juncs:
            jl = nets.jlabel(b, j)
            net.sink.loc[net.sink.junction == jl, "mdot_kg_per_s"] = None
        vals = np.empty(len(net.sink), dtype=object)
        sc = np.empty(len(net.sink), dtype=object)
        for i, ix in enumerate(net.sink.index):
            vals[i] = tot[ix - 900]
            sc[i] = 1.0
        net.sink["mdot_kg_per_s"] = vals
        net.sink["scaling"] = sc
    ra = equiv.RunSpec(a, kw)
    rb = equiv.RunSpec(b, kw, edit_fn=edit_b)

    def cells(neta, netb):
        return [c for c in equiv.default_cells(neta, netb) if c[0].split(".")[0] not in
                ("res_sink", "res_source", "res_mass_storage")]
    return equiv.equiv_worker(job, ra, rb, fp_prefix="C09/loads", replay_kind="loads", cells_fn=cells)


def replay_loads(rs):
    a = rs["spec"]
    for values in (rs.get("values", {}), {}):
        na, names = nets.build(a, nets.concrete_valuer(values))
        oka, ea = concrete_pipeflow(na, use_numba=bool(rs.get("numba")), mode="hydraulics", tol_p=1e-10, tol_m=1e-10,
                                    tol_res=1e-10, max_iter_hyd=300)
        nb, _ = nets.build(a, nets.concrete_valuer(values))
        # aggregate in place: one sink per junction
        tot = {}
        for tbl, sg in (("sink", 1), ("source", -1), ("mass_storage", 1)):
            if tbl in nb and len(nb[tbl]):
                t = nb[tbl]
                for ix in t.index:
                    if t.at[ix, "in_service"]:
                        tot[int(t.at[ix, "junction"])] = tot.get(int(t.at[ix, "junction"]), 0.0) + \
                            sg * t.at[ix, "mdot_kg_per_s"] * t.at[ix, "scaling"]
                nb[tbl] = t.iloc[0:0]
        import pandapipes as pp
        for j, m in tot.items():
            pp.create_sink(nb, j, mdot_kg_per_s=m)
        okb, eb = concrete_pipeflow(nb, use_numba=bool(rs.get("numba")), mode="hydraulics", tol_p=1e-10, tol_m=1e-10,
                                    tol_res=1e-10, max_iter_hyd=300)
        if oka != okb:
            return True, {"convergence differs": [ea, eb]}
        if not oka:
            continue
        worst, where = 0.0, None
        for lab, x, y in equiv.default_cells(na, nb):
            if lab.split(".")[0] in ("res_sink", "res_source", "res_mass_storage"):
                continue
            try:
                xn, yn = np.isnan(x), np.isnan(y)
            except TypeError:
                continue
            if xn or yn:
                if xn != yn:
                    worst, where = 1.0, lab
                continue
            g = abs(x - y) / (1 + abs(x) + abs(y))
            if g > worst:
                worst, where = g, "%s: %r vs %r" % (lab, x, y)
        return worst > 1e-6, {"worst": worst, "where": where}
    return False, {"both fail": True}


# ---- absent --------------------------------------------------------------------------------------------------
def drop_inactive(spec):
    """description B: out-of-service elements, closed valves and out-of-service junctions' elements removed"""
    a = copy.deepcopy(spec)
    cnt = {}
    for e in a["elems"]:
        e.setdefault("index", cnt.get(e["t"], 0))
        cnt[e["t"]] = e["index"] + 1
    b = copy.deepcopy(a)
    b["elems"] = [e for e in b["elems"] if e.get("in_service", True) and e.get("opened", True)]
    return a, b


def absent_worker(job):
    H.install(numba_pyfunc=bool(job["numba"]))
    a, b = drop_inactive(job["spec"])
    kw = dict(mode=job["pfmode"], use_numba=bool(job["numba"]))
    ra, rb = equiv.RunSpec(a, kw), equiv.RunSpec(b, kw)
    present = {(e["t"], e["index"]) for e in b["elems"]}

    def cells(neta, netb):
        out = []
        for key in sorted(k for k in neta.keys() if isinstance(k, str) and k.startswith("res_")):
            ta = neta[key]
            if not hasattr(ta, "columns"):
                continue
            tbl = key[4:]
            for ix in ta.index:
                for col in ta.columns:
                    x = ta.at[ix, col]
                    if tbl == "junction" or (tbl, ix) in present:
                        if key in netb and col in netb[key].columns and ix in netb[key].index:
                            out.append(("%s.%s[%s]" % (key, col, ix), x, netb[key].at[ix, col]))
                    else:
                        # a disabled element reports nothing
                        out.append(("%s.%s[%s] (disabled element)" % (key, col, ix), x, float("nan")))
        return out
    return equiv.equiv_worker(job, ra, rb, fp_prefix="C09/absent", replay_kind="absent", cells_fn=cells)


def replay_absent(rs):
    a, b = drop_inactive(rs["spec"])
    mode = rs.get("pfmode") or "hydraulics"
    present = {(e["t"], e["index"]) for e in b["elems"]}
    for values in (rs.get("values", {}), {}):
        res = []
        for spec in (a, b):
            net, _ = nets.build(spec, nets.concrete_valuer(values))
            ok, err = concrete_pipeflow(net, use_numba=bool(rs.get("numba")), mode=mode, tol_p=1e-10, tol_m=1e-10,
                                        tol_res=1e-10, max_iter_hyd=300, max_iter_therm=300)
            res.append((net, ok, err))
        (na, oka, ea), (nb, okb, eb) = res
        if oka != okb:
            return True, {"convergence differs": [ea, eb]}
        if not oka:
            continue
        worst, where = 0.0, None
        for key in [k for k in na.keys() if isinstance(k, str) and k.startswith("res_")]:
            ta = na[key]
            if not hasattr(ta, "columns"):
                continue
            tbl = key[4:]
            for ix in ta.index:
                for col in ta.columns:
                    x = ta.at[ix, col]
                    if tbl == "junction" or (tbl, ix) in present:
                        if key not in nb or ix not in nb[key].index or col not in nb[key].columns:
                            continue
                        y = nb[key].at[ix, col]
                    else:
                        y = float("nan")
                    try:
                        xn, yn = np.isnan(x), np.isnan(y)
                    except TypeError:
                        continue
                    if xn or yn:
                        if xn != yn:
                            worst, where = 1.0, "%s.%s[%s] nan-ness" % (key, col, ix)
                        continue
                    g = abs(x - y) / (1 + abs(x) + abs(y))
                    if g > worst:
                        worst, where = g, "%s.%s[%s]: %r vs %r" % (key, col, ix, x, y)
        return worst > 1e-6, {"worst": worst, "where": where}
    return False, {"both fail": True}


# ---- pressure shift --------------------------------------------------------------------------------------------
PCOLS = [("ext_grid", "p_bar"), ("circ_pump_pressure", "p_flow_bar"), ("circ_pump_mass", "p_flow_bar"),
         ("press_control", "controlled_p_bar"), ("junction", "pn_bar")]


def shift_worker(job):
    H.install(numba_pyfunc=bool(job["numba"]))
    a = copy.deepcopy(job["spec"])
    kw = dict(mode="hydraulics", use_numba=bool(job["numba"]))
    c = real("shift_c")

    def edit_b(net):
        for tbl, col in PCOLS:
            if tbl in net and len(net[tbl]):
                net[tbl][col] = np.array([v + c if isinstance(v, Sym) else v for v in net[tbl][col].values], dtype=object)
    ra = equiv.RunSpec(a, kw, build_kwargs={"skip": (("junction", "height_m"),)})
    rb = equiv.RunSpec(a, kw, edit_fn=edit_b, build_kwargs={"skip": (("junction", "height_m"),)})
    rb.havoc_xform = lambda nm, v: (v + c if nm.startswith("p[") else v)

    def cells(neta, netb):
        out = []
        for lab, x, y in equiv.default_cells(neta, netb):
            col = lab.split(".", 1)[1].split("[")[0]
            if col in ("p_bar", "p_from_bar", "p_to_bar") and not is_nan(x) and not is_nan(y):
                out.append((lab + " (shifted)", x + c, y))
            else:
                out.append((lab, x, y))
        return out
    return equiv.equiv_worker(job, ra, rb, fp_prefix="C09/shift", replay_kind="shift", cells_fn=cells,
                              extra_assumptions=[c.t > -1, c.t < 50],
                              witnesses_fn=lambda base, p0, job_: [H.Witness(dict(base, shift_c=1.3)),
                                                                   H.Witness(dict(base, shift_c=0.4), kinds={"m": -0.6})])


def replay_shift(rs):
    a = rs["spec"]
    cval = float(rs.get("values", {}).get("shift_c", 1.7)) or 1.7
    for values in (rs.get("values", {}), {}):
        res = []
        for sh in (0.0, cval):
            net, _ = nets.build(a, nets.concrete_valuer(values), skip=(("junction", "height_m"),))
            for tbl, col in PCOLS:
                if tbl in net and len(net[tbl]):
                    net[tbl][col] = net[tbl][col].astype(float) + sh
            ok, err = concrete_pipeflow(net, use_numba=bool(rs.get("numba")), mode="hydraulics", tol_p=1e-10, tol_m=1e-10,
                                        tol_res=1e-10, max_iter_hyd=300)
            res.append((net, ok, err))
        (na, oka, ea), (nb, okb, eb) = res
        if oka != okb:
            return True, {"convergence differs": [ea, eb]}
        if not oka:
            continue
        worst, where = 0.0, None
        for lab, x, y in equiv.default_cells(na, nb):
            col = lab.split(".", 1)[1].split("[")[0]
            try:
                xn, yn = np.isnan(x), np.isnan(y)
            except TypeError:
                continue
            if xn or yn:
                if xn != yn:
                    worst, where = 1.0, lab
                continue
            if col in ("p_bar", "p_from_bar", "p_to_bar"):
                x = x + cval
            g = abs(x - y) / (1 + abs(x) + abs(y))
            if g > worst:
                worst, where = g, "%s: %r vs %r" % (lab, x, y)
        return worst > 1e-6, {"worst": worst, "where": where}
    return False, {"both fail": True}


# ---- sections: the n section rows sum up to the row of the 1-section pipe ------------------------------------------
def sections_worker(job):
    import pandapipes as pp
    S = job["S"]
    numba = bool(job["numba"])
    patched, ass = H.install(numba_pyfunc=numba)
    base = {"name": "sec", "fluid": "water", "nj": 3, "jh": [0, 0, 0], "elems": [
        E("ext_grid", j=0), E("pipe", f=0, to=1, sections=1, zeta=0.7), E("pipe", f=1, to=2, sections=1),
        E("sink", j=2), E("sink", j=1)]}
    specs = {}
    for tag, s in (("A", 1), ("B", S)):
        sp = copy.deepcopy(base)
        sp["elems"][1]["sections"] = s
        specs[tag] = sp
    skip = (("junction", "tfluid_k"), ("junction", "pn_bar"))
    rows = {}
    exs = []
    for tag in ("A", "B"):
        def run(tag=tag):
            net, names = nets.build(specs[tag], nets.sym_valuer(), fluid=stubs.make_sym_fluid(False), skip=skip)
            # uniform temperature: one symbol for all junctions
            net.junction["tfluid_k"] = np.array([real("T_uniform")] * len(net.junction), dtype=object)
            if "ext_grid" in net:
                net.ext_grid["t_k"] = np.array([real("T_uniform")] * len(net.ext_grid), dtype=object)
            pp.pipeflow(net, mode="hydraulics", use_numba=numba, friction_model=job["friction"])
            return net
        _, names = nets.build(specs[tag], nets.sym_valuer(), skip=skip)
        A = list(ass) + nets.admissibility(names) + [z3.Real("T_uniform") > 0]
        H.CTX.fixed = set()
        w = H.Witness(dict(names, T_uniform=300.0))
        ex = H.explore_witnesses(run, [w], A)
        p = ex.paths[0]
        exs.append(ex)
        if p.exc is not None:
            return finish_worker(job, ex, [], errors=["run %s raised %r" % (tag, p.exc)])
        s_ = p.systems[-1]
        nn, bn = s_["node_names"], s_["branch_names"]
        rows[tag] = {b: s_["b"][len(nn) + i] for i, b in enumerate(bn)}
        rows[tag + "_path"] = p
    # sum of the section rows with m_k := m, p_internal eliminated (they telescope)
    secs = [rows["B"]["pipe:0:%d" % k] for k in range(S)]
    total = secs[0]
    for r in secs[1:]:
        total = total + r
    subs = [(z3.Real("m[pipe:0:%d]" % k), z3.Real("m[pipe:0:0]")) for k in range(1, S)]
    tot_t = z3.substitute(_t(total), *subs)
    goal = tot_t == _t(rows["A"]["pipe:0:0"])
    pa, pb = rows["A_path"], rows["B_path"]
    hy = list(ENG.assumptions) + pa.facts + pb.facts + pa.path + pb.path + pa.defined + pb.defined
    viol = []
    r, m, how = D.check(hy, goal, sample="sections S=%d %s" % (S, job["friction"]), timeout_ms=20000,
                        witness=(pb.witness, H.witness_funcs()))
    if r == 'sat':
        viol.append({"fingerprint": "C09/sections/row_sum", "detail": {"S": S, "friction": job["friction"]},
                     "replay": {"kind": "sections", "S": S, "friction": job["friction"], "numba": numba,
                                "values": {k: v for k, v in (m or {}).items() if isinstance(v, float)}}})
    elif r == 'unknown':
        job.setdefault("_inconclusive", []).append("section sum S=%d" % S)
    # reported results of the pipe: at a fixed point of both descriptions (b = 0, x = 0) every res_pipe cell of the
    # S-section pipe equals that of the 1-section pipe
    stubs.CTX.spsolve_mode = 'fixed_point'
    fp = {}
    try:
        for tag in ("A", "B"):
            def run(tag=tag):
                net, names = nets.build(specs[tag], nets.sym_valuer(), fluid=stubs.make_sym_fluid(False), skip=skip)
                net.junction["tfluid_k"] = np.array([real("T_uniform")] * len(net.junction), dtype=object)
                net.ext_grid["t_k"] = np.array([real("T_uniform")] * len(net.ext_grid), dtype=object)
                pp.pipeflow(net, mode="hydraulics", use_numba=numba, friction_model=job["friction"])
                return net
            _, names = nets.build(specs[tag], nets.sym_valuer(), skip=skip)
            A = list(ass) + nets.admissibility(names) + [z3.Real("T_uniform") > 0]
            H.CTX.fixed = set()
            ex = H.explore_witnesses(run, [H.Witness(dict(rows["B_path"].witness))], A)
            exs.append(ex)
            if ex.paths[0].exc is not None:
                return finish_worker(job, ex, [], errors=["fixed-point run %s raised %r" % (tag, ex.paths[0].exc)])
            fp[tag] = ex.paths[0]
    finally:
        stubs.CTX.spsolve_mode = 'free'
    qa, qb = fp["A"], fp["B"]
    hy = list(ENG.assumptions) + qa.facts + qb.facts + qa.path + qb.path + qa.defined + qb.defined + qa.assumed + qb.assumed \
        + qa.lin + qb.lin
    m0 = z3.Real("m[pipe:0:0]")
    for k in range(1, S):
        r, m, how = D.check(hy, z3.Real("m[pipe:0:%d]" % k) == m0, sample="sections flow continuity", timeout_ms=10000)
        if r != 'unsat':
            job.setdefault("_inconclusive", []).append("section flows equal at a fixed point (S=%d, k=%d): %s" % (S, k, r))
    ta, tb = qa.value.res_pipe, qb.value.res_pipe
    for col in ta.columns:
        x, y = ta.at[0, col], tb.at[0, col]
        if is_nan(x) or is_nan(y):
            D.STATS.obligations += 1
            if is_nan(x) and is_nan(y):
                D.STATS.rewriter += 1
                continue
            r, m = 'sat', None
        else:
            goal = z3.substitute(_t(x) == _t(y), *subs)
            r, m, how = D.check(hy, goal, sample="sections S=%d res_pipe.%s" % (S, col), timeout_ms=20000,
                                witness=(qb.witness, H.witness_funcs()))
        if r == 'sat':
            viol.append({"fingerprint": "C09/sections/res_pipe." + col, "detail": {"S": S, "friction": job["friction"], "col": col},
                         "replay": {"kind": "sections", "S": S, "friction": job["friction"], "numba": numba, "col": col,
                                    "values": {k: v for k, v in (m or {}).items() if isinstance(v, float)}}})
        elif r == 'unknown':
            job.setdefault("_inconclusive", []).append("sections S=%d res_pipe.%s" % (S, col))
    ex = exs[0]
    for e in exs[1:]:
        ex.paths += e.paths
    return finish_worker(job, ex, viol)


def replay_sections(rs):
    """real pipeflow to convergence: water at uniform temperature, 1 section vs S sections"""
    import pandapipes as pp
    S = rs["S"]
    res = []
    vals = rs.get("values", {})
    zeta = vals.get("pipe.loss_coefficient[0]", 0.7)
    zeta = zeta if 0 <= zeta < 1e3 else 0.7
    for s in (1, S):
        net = pp.create_empty_network(fluid="water")
        j = pp.create_junctions(net, 3, pn_bar=5, tfluid_k=320.)
        pp.create_ext_grid(net, j[0], p_bar=5, t_k=320.)
        pp.create_pipe_from_parameters(net, j[0], j[1], length_km=0.6, inner_diameter_mm=100, k_mm=0.1, sections=s,
                                       loss_coefficient=zeta)
        pp.create_pipe_from_parameters(net, j[1], j[2], length_km=0.4, inner_diameter_mm=100, k_mm=0.1)
        pp.create_sink(net, j[2], mdot_kg_per_s=4.)
        pp.create_sink(net, j[1], mdot_kg_per_s=1.)
        ok, err = concrete_pipeflow(net, mode="hydraulics", use_numba=bool(rs.get("numba")), friction_model=rs["friction"],
                                    tol_p=1e-10, tol_m=1e-10, tol_res=1e-10, max_iter_hyd=300)
        res.append((net, ok, err))
    (na, oka, ea), (nb, okb, eb) = res
    if not (oka and okb):
        return oka != okb, {"errors": [ea, eb]}
    gap = float(np.max(np.abs(na.res_junction.p_bar.values - nb.res_junction.p_bar.values)))
    cols = {}
    for col in na.res_pipe.columns:
        x, y = float(na.res_pipe.at[0, col]), float(nb.res_pipe.at[0, col])
        if np.isnan(x) and np.isnan(y):
            continue
        g = abs(x - y) / (1e-9 + abs(x) + abs(y)) if not (np.isnan(x) or np.isnan(y)) else 1.0
        if g > 1e-6:
            cols[col] = [x, y]
    if cols:
        return True, {"res_pipe cells differ (1 section vs %d sections)" % S: cols}
    return gap > 1e-6, {"p_bar 1 section": na.res_junction.p_bar.tolist(), "p_bar %d sections" % S: nb.res_junction.p_bar.tolist()}


# ---- series: n sections == n pipes in series ---------------------------------------------------------------------------
def series_worker(job):
    H.install(numba_pyfunc=bool(job["numba"]))
    S = job["S"]
    a = {"name": "serA", "fluid": job["fluid"], "nj": 3, "jh": [0, 6, 2], "elems": [
        E("ext_grid", j=0), E("pipe", f=0, to=1, sections=S, index=0), E("pipe", f=1, to=2, index=1),
        E("sink", j=2), E("source", j=1)]}
    # B: junction labels 0,1,2 + internal junctions 10.. ; pipes 100+k for the sections
    nj = 3 + S - 1
    b = {"name": "serB", "fluid": job["fluid"], "nj": nj, "jl": [0, 1, 2] + [10 + k for k in range(S - 1)],
         "jh": [0, 6, 2] + [0] * (S - 1), "elems": [E("ext_grid", j=0)]}
    chain = [0] + [3 + k for k in range(S - 1)] + [1]
    for k in range(S):
        b["elems"].append(E("pipe", f=chain[k], to=chain[k + 1], index=100 + k))
    b["elems"] += [E("pipe", f=1, to=2, index=1), E("sink", j=2), E("source", j=1)]
    kw = dict(mode="hydraulics", use_numba=bool(job["numba"]))
    name_map = {}
    for k in range(S):
        name_map["pipe:%d:0" % (100 + k)] = "pipe:0:%d" % k
    for k in range(S - 1):
        name_map["junction:%d:0" % (10 + k)] = "pipe_nodes:0:%d" % k

    def edit_b(net):
        # section pipes carry the original pipe's parameters, 1/S of its length and loss coefficient
        # and interpolated heights / start values at the inserted junctions
        L, d, kk, z = (real(nets.sym_name("pipe", c, 0)) for c in ("length_km", "inner_diameter_mm", "k_mm", "loss_coefficient"))
        for k in range(S):
            ix = 100 + k
            net.pipe.at[ix, "length_km"] = L / S
            net.pipe.at[ix, "inner_diameter_mm"] = d
            net.pipe.at[ix, "k_mm"] = kk
            net.pipe.at[ix, "loss_coefficient"] = z / S
        h0, h1 = net.junction.at[0, "height_m"], net.junction.at[1, "height_m"]
        t0, t1 = net.junction.at[0, "tfluid_k"], net.junction.at[1, "tfluid_k"]
        p0, p1 = net.junction.at[0, "pn_bar"], net.junction.at[1, "pn_bar"]
        for k in range(S - 1):
            fr = (k + 1)
            net.junction.at[10 + k, "height_m"] = h0 + (h1 - h0) / S * fr
            net.junction.at[10 + k, "tfluid_k"] = t0 + (t1 - t0) / S * fr
            net.junction.at[10 + k, "pn_bar"] = p0 + (p1 - p0) / S * fr
    ra = equiv.RunSpec(a, kw)
    rb = equiv.RunSpec(b, kw, edit_fn=edit_b)
    rb.name_map = name_map

    def cells(neta, netb):
        out = []
        for j in (0, 1, 2):
            for c in ("p_bar", "t_k"):
                out.append(("res_junction.%s[%d]" % (c, j), neta.res_junction.at[j, c], netb.res_junction.at[j, c]))
        ra_, rb_ = neta.res_pipe, netb.res_pipe
        out.append(("res_pipe.p_from_bar[0]", ra_.at[0, "p_from_bar"], rb_.at[100, "p_from_bar"]))
        out.append(("res_pipe.p_to_bar[0]", ra_.at[0, "p_to_bar"], rb_.at[100 + S - 1, "p_to_bar"]))
        out.append(("res_pipe.mdot_from_kg_per_s[0]", ra_.at[0, "mdot_from_kg_per_s"], rb_.at[100, "mdot_from_kg_per_s"]))
        out.append(("res_pipe.mdot_to_kg_per_s[0]", ra_.at[0, "mdot_to_kg_per_s"], rb_.at[100 + S - 1, "mdot_to_kg_per_s"]))
        for c in ra_.columns:
            out.append(("res_pipe.%s[1]" % c, ra_.at[1, c], rb_.at[1, c]))
        for t in ("ext_grid", "sink", "source"):
            out.append(("res_%s.mdot_kg_per_s[0]" % t, neta["res_" + t].at[0, "mdot_kg_per_s"],
                        netb["res_" + t].at[0, "mdot_kg_per_s"]))
        return out
    return equiv.equiv_worker(job, ra, rb, fp_prefix="C09/series", replay_kind="series", cells_fn=cells,
                              replay_extra={"S": S, "fluid": job["fluid"]})


def replay_series(rs):
    import pandapipes as pp
    S = rs["S"]
    fluid = "water" if rs.get("fluid", "water") == "water" else "lgas"
    res = []
    for variant in ("sections", "series"):
        net = pp.create_empty_network(fluid=fluid)
        j = pp.create_junctions(net, 3, pn_bar=5, tfluid_k=310., height_m=[0, 6, 2])
        pp.create_ext_grid(net, j[0], p_bar=5, t_k=310.)
        if variant == "sections":
            pp.create_pipe_from_parameters(net, j[0], j[1], length_km=0.9, inner_diameter_mm=90, k_mm=0.2, sections=S,
                                           loss_coefficient=0.6)
        else:
            prev = j[0]
            for k in range(S):
                nxt = j[1] if k == S - 1 else pp.create_junction(net, pn_bar=5, tfluid_k=310., height_m=6.0 * (k + 1) / S)
                pp.create_pipe_from_parameters(net, prev, nxt, length_km=0.9 / S, inner_diameter_mm=90, k_mm=0.2,
                                               loss_coefficient=0.6 / S)
                prev = nxt
        pp.create_pipe_from_parameters(net, j[1], j[2], length_km=0.4, inner_diameter_mm=100, k_mm=0.1)
        pp.create_sink(net, j[2], mdot_kg_per_s=3. if fluid == "water" else 0.05)
        ok, err = concrete_pipeflow(net, mode="hydraulics", use_numba=bool(rs.get("numba")), tol_p=1e-10, tol_m=1e-10,
                                    tol_res=1e-10, max_iter_hyd=300)
        res.append((net, ok, err))
    (na, oka, ea), (nb, okb, eb) = res
    if not (oka and okb):
        return oka != okb, {"errors": [ea, eb]}
    gap = float(np.max(np.abs(na.res_junction.p_bar.values[:3] - nb.res_junction.p_bar.values[:3])))
    return gap > 1e-6, {"sections": na.res_junction.p_bar.tolist()[:3], "series": nb.res_junction.p_bar.tolist()[:3]}


# ---------------------------------------------------------------------------------------------------------------------
def reversible_positions(spec):
    return [k for k, e in enumerate(spec["elems"]) if e["t"] in REVERSIBLE and (e["t"] != "valve" or e.get("et", "ju") == "ju")]


def jobs(tier, seed):
    import itertools
    out = []
    rev_specs = [catalog.w_line3(), catalog.w_mesh4(), catalog.g_mesh(), catalog.w_circ_mass(), catalog.w_heat_line()]
    if tier == "thorough":
        rev_specs += [catalog.w_components(), catalog.g_line3(), catalog.g_components(), catalog.w_oos()]
    rng = random.Random(9000 + seed)
    for s in rev_specs:
        pos = reversible_positions(s)
        subsets = []
        if tier == "thorough" and len(pos) <= 5:
            for r in range(1, len(pos) + 1):
                subsets += list(itertools.combinations(pos, r))
        else:
            subsets = [(p,) for p in pos[:3]]
            if len(pos) >= 2:
                subsets.append(tuple(pos[:2]))
            if len(pos) >= 3:
                subsets.append(tuple(rng.sample(pos, 3)))
        for sub in subsets:
            for numba in ((False, True) if len(sub) == 1 else (False,)):
                mode = "sequential" if s["name"].startswith(("w_circ", "w_heat")) else "hydraulics"
                out.append({"name": "reverse/%s/%s/%s" % (s["name"], "-".join(map(str, sub)), "numba" if numba else "numpy"),
                            "kind": "reverse", "spec": s, "which": list(sub), "numba": numba, "pfmode": mode})
    for s in [catalog.w_line3(), catalog.w_mesh4(), catalog.g_line3()]:
        for numba in (False, True):
            out.append({"name": "loads/%s/%s" % (s["name"], "numba" if numba else "numpy"), "kind": "loads", "spec": s,
                        "numba": numba})
    # out-of-service elements that prescribe a mass flow, between junctions that stay supplied through a parallel pipe
    fc_oos = {"name": "g_fc_oos", "fluid": "gas", "nj": 3, "elems": [
        E("ext_grid", j=0), E("pipe", f=0, to=1), E("pipe", f=1, to=2), E("flow_control", f=1, to=2, in_service=False),
        E("sink", j=2), E("sink", j=1)]}
    hc_oos = {"name": "w_hc_oos", "fluid": "water", "nj": 4, "elems": [
        E("circ_pump_pressure", ret=3, flow=0), E("pipe", f=0, to=1, u=5.0), E("pipe", f=2, to=3, u=5.0),
        E("heat_consumer", f=1, to=2, mdot=1.0, qext_w=20000.0),
        E("heat_consumer", f=1, to=2, mdot=0.6, qext_w=9000.0, in_service=False)]}
    for s in [catalog.w_oos(), catalog.w_fc_off(), catalog.g_components(), fc_oos, hc_oos]:
        s2 = copy.deepcopy(s)
        if s2["name"] == "g_components":
            s2["elems"][3]["opened"] = False
            s2["elems"].append(E("sink", j=1, in_service=False))
        # junctions stay; only elements are compared
        s2["jis"] = None
        out.append({"name": "absent/%s" % s2["name"], "kind": "absent", "spec": s2, "numba": False,
                    "pfmode": "sequential" if s2["name"] == "w_hc_oos" else "hydraulics"})
    for s in [catalog.w_line3(), catalog.w_mesh4(), catalog.w_components()]:
        out.append({"name": "shift/%s" % s["name"], "kind": "shift", "spec": s, "numba": False})
    for S in ([2, 3] if tier == "quick" else [2, 3, 4]):
        for fr in ("nikuradse", "swamee-jain"):
            for numba in (False, True):
                out.append({"name": "sections/S%d/%s/%s" % (S, fr, "numba" if numba else "numpy"), "kind": "sections", "S": S,
                            "friction": fr, "numba": numba})
        for fluid in ("water", "gas"):
            out.append({"name": "series/S%d/%s" % (S, fluid), "kind": "series", "S": S, "fluid": fluid, "numba": False,
                        "spec": {"name": "series", "fluid": fluid, "nj": 3, "elems": []}})
    return out


WORKERS = {"reverse": reverse_worker, "loads": loads_worker, "absent": absent_worker, "shift": shift_worker,
           "sections": sections_worker, "series": series_worker}
REPLAYS = {"reverse": replay_reverse, "loads": replay_loads, "absent": replay_absent, "shift": replay_shift,
           "sections": replay_sections, "series": replay_series}


def worker(job):
    return WORKERS[job["kind"]](job)


def replay(rs):
    return REPLAYS[rs["kind"]](rs)


def main(argv=None):
    return runner.run(PROP, "checks.c09", jobs, META, argv)
