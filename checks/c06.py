"""C06 — results do not depend on labels, row order or creation order.

Two symbolic executions of the real pipeflow (DESIGN 3.3, equiv.py): the base description and a
relabelled / permuted / differently created description of the same physical system, from the
same arbitrary state (symbols are named by element identity through the relabelling).  z3 proves
that the assembled Newton systems and every extracted result are equal for all parameter values."""
import copy
import random

from svx import harness as H, nets, catalog, stubs, runner, equiv, discharge as D
from svx.common import concrete_pipeflow, finish_worker
import numpy as np

PROP = "C06"
POOL = [0, 1, 2, 3, 7, 42, 99999, 100000, 250000, 11, 5]

META = {
    "level": "model_checking",
    "functions": ["pf.pipeflow_setup.create_lookups/initialize_pit/reduce_pit/reduce_lookups",
                  "Junction.create_node_lookups", "BranchComponent.create_branch_lookups", "internals_toolbox._sum_by_group*",
                  "_sum_values_by_index.py_func", "result_extraction.extract_branch_results_with_internals/_without_internals",
                  "all create_pit_*_entries / extract_results", "build_system_matrix"],
    "files": ["src/pandapipes/pf/pipeflow_setup.py", "src/pandapipes/component_models/junction_component.py",
              "src/pandapipes/pf/internals_toolbox.py", "src/pandapipes/pf/result_extraction.py",
              "src/pandapipes/component_models/abstract_models/branch_models.py"],
    "stubs": stubs.STUB_LIST,
    "assumptions": ["labels are concrete (array sizes, hashing): relabellings are drawn from the pool "
                    "{0,1,2,3,5,7,11,42,99999,100000,250000} incl. both sides of the 1e5 switch of _sum_by_group_numba",
                    "reals instead of doubles", "same arbitrary pre-state / same update vector in both runs (identity-named)"],
    "bound": {"quick": "12 base structures x 2 relabellings (labels + creation order; row permutations) x {numpy, numba py_func}, "
                       "hydraulic and sequential",
              "thorough": "core + 30 random structures x 4 relabellings"},
    "outside": ["symbolic labels", "networks larger than J<=6"],
    "rule": "one obligation per system entry and per result cell; identity through the relabelling",
}

ELEM_TABLE = {"ext_grid": "ext_grid", "sink": "sink", "source": "source", "mass_storage": "mass_storage", "pipe": "pipe",
              "valve": "valve", "pump": "pump", "circ_pump_pressure": "circ_pump_pressure",
              "circ_pump_mass": "circ_pump_mass", "compressor": "compressor", "press_control": "press_control",
              "flow_control": "flow_control", "heat_exchanger": "heat_exchanger", "heat_consumer": "heat_consumer"}


def _stable_hash(name):
    import zlib
    return zlib.crc32(name.encode()) % 1000


def with_explicit_indices(spec):
    """A-side: explicit labels 0..n-1 per table in creation order"""
    s = copy.deepcopy(spec)
    cnt = {}
    qs = 1.0 if s.get("fluid", "water") == "water" else 0.08
    for k, e in enumerate(s["elems"]):
        # defaults that nets.build derives from the position in the element list are made explicit, so that a
        # description with another creation order carries the same numbers
        if e["t"] == "pipe":
            e.setdefault("length_km", 0.4 + 0.1 * k)
        elif e["t"] in ("sink", "source"):
            e.setdefault("mdot", (0.3 + 0.1 * k) * qs)
    for e in s["elems"]:
        t = e["t"]
        if "index" not in e:
            e["index"] = cnt.get(t, 0)
        cnt[t] = max(cnt.get(t, 0), e["index"]) + 1
    return s


def relabel(spec, rng, labels=True, order=True, rows=True, cyclic=False):
    """B-side spec + ident map (B label -> A label) + row map (A label -> B label)"""
    a = with_explicit_indices(spec)
    b = copy.deepcopy(a)
    nj = a["nj"]
    jl_a = [nets.jlabel(a, i) for i in range(nj)]
    ident, fwd = {}, {}
    if labels:
        jl_b = rng.sample(POOL, nj)
        if cyclic and nj >= 3:
            jl_b = sorted(jl_b)
            jl_b = jl_b[1:] + jl_b[:1]
        b["jl"] = jl_b
    else:
        jl_b = jl_a
    ident["junction"] = {jb: ja for ja, jb in zip(jl_a, jl_b)}
    fwd["junction"] = {ja: jb for ja, jb in zip(jl_a, jl_b)}
    if order:
        o = list(range(nj))
        rng.shuffle(o)
        b["jorder"] = o
    by_t = {}
    for e in a["elems"]:
        by_t.setdefault(e["t"], []).append(e["index"])
    maps = {}
    for t, idxs in by_t.items():
        new = rng.sample(POOL, len(idxs)) if labels else list(idxs)
        if labels and cyclic and len(new) >= 3:
            # sorting permutation that is not its own inverse (an n-cycle)
            new = sorted(new)
            new = new[1:] + new[:1]
        maps[t] = dict(zip(idxs, new))
        ident[ELEM_TABLE[t]] = {nb: na for na, nb in maps[t].items()}
        fwd[ELEM_TABLE[t]] = dict(maps[t])
    for e in b["elems"]:
        e["index"] = maps[e["t"]][e["index"]]
        if e["t"] == "valve" and e.get("et") == "pi":
            e["el"] = maps["pipe"][e["el"]]
    if order:
        # creation order: shuffle, but pipes before the valves that reference them
        rng.shuffle(b["elems"])
        b["elems"].sort(key=lambda e: 1 if (e["t"] == "valve" and e.get("et") == "pi") else 0)
    if rows:
        perm = {}
        for t, idxs in by_t.items():
            p = list(range(len(idxs)))
            rng.shuffle(p)
            perm[ELEM_TABLE[t]] = p
        pj = list(range(nj))
        rng.shuffle(pj)
        perm["junction"] = pj
        b["row_perm"] = perm
    return a, b, ident, fwd


def jobs(tier, seed):
    out = []
    specs = [catalog.w_line3(), catalog.w_mesh4(), catalog.w_components(), catalog.w_oos(), catalog.g_line3(),
             catalog.g_components(), catalog.w_pi_valve(), catalog.w_circ_loop(), catalog.w_circ_mass(), catalog.w_heat_line(), catalog.w_heat_line_rev(), catalog.w_three_pi(), catalog.w_pump_standby()]
    rng = random.Random(6000 + seed)
    for i in range(0 if tier == "quick" else 30):
        specs.append(catalog.random_spec(rng, name="rand%d_s%d" % (i, seed)))
    nvar = 2 if tier == "quick" else 4
    for s in specs:
        for v in range(nvar):
            for numba in (False, True):
                mode = "sequential" if s["name"].startswith(("w_circ", "w_heat")) else "hydraulics"
                out.append({"name": "%s/v%d/%s" % (s["name"], v, "numba" if numba else "numpy"), "spec": s, "variant": v,
                            "numba": numba, "pfmode": mode, "vseed": 100 * seed + v})
        if any(int(e.get("sections", 1)) > 1 for e in s["elems"] if e["t"] == "pipe"):
            for v in range(nvar):
                mode = "sequential" if s["name"].startswith(("w_circ", "w_heat")) else "hydraulics"
                out.append({"name": "%s/internals/v%d" % (s["name"], v), "kind": "internals", "spec": s, "variant": v, "numba": False,
                            "pfmode": mode, "vseed": 100 * seed + v})
    return out


def worker(job):
    if job.get("kind") == "internals":
        return internals_worker(job)
    H.install(numba_pyfunc=bool(job["numba"]))
    rng = random.Random(job["vseed"] * 7919 + _stable_hash(job["spec"]["name"]))
    v = job["variant"]
    a, b, ident, fwd = relabel(job["spec"], rng, labels=(v % 2 == 0) or v >= 2, order=True, rows=(v % 2 == 1) or v >= 2,
                                cyclic=(v == 0))
    kw = dict(mode=job["pfmode"], use_numba=bool(job["numba"]))
    ra = equiv.RunSpec(a, kw)
    rb = equiv.RunSpec(b, kw, ident=ident, row_map=lambda tbl, ix: fwd.get(tbl, {}).get(ix, ix))
    return equiv.equiv_worker(job, ra, rb, fp_prefix="C06", replay_kind="relabel",
                              replay_extra={"fwd": {t: {str(k): v_ for k, v_ in m.items()} for t, m in fwd.items()},
                                            "identB": {t: {str(k): v_ for k, v_ in m.items()} for t, m in ident.items()}})


def internals_worker(job):
    """evaluated part (no solver): Pipe.get_internal_results - the per-section view of the results - of corresponding
    multi-section pipes agrees between the base description and the relabelled one (float runs of the real code)"""
    violated, detail = _internals_compare(job["spec"], job["variant"], job["vseed"], bool(job["numba"]), job["pfmode"])
    viol = []
    if violated:
        viol.append({"fingerprint": "C06/internal_results", "detail": dict(detail, job=job["name"]),
                     "replay": {"kind": "internals", "spec": job["spec"], "variant": job["variant"], "vseed": job["vseed"],
                                "numba": job["numba"], "pfmode": job["pfmode"], "values": {}}})
    D.STATS.obligations += 1
    D.STATS.rewriter += 0 if violated else 1
    return finish_worker(job, H.Exploration(), viol, evaluated=1)


def _internals_compare(spec, v, vseed, numba, mode):
    from pandapipes.component_models.pipe_component import Pipe
    rng = random.Random(vseed * 7919 + _stable_hash(spec["name"]))
    a, b, ident, fwd = relabel(spec, rng, labels=True, order=True, rows=(v % 2 == 1), cyclic=(v == 0))
    out = []
    for sp, idm in ((a, None), (b, ident)):
        net, _ = nets.build(sp, nets.concrete_valuer({}), ident=idm)
        ok, err = concrete_pipeflow(net, use_numba=numba, mode=mode, tol_p=1e-9, tol_m=1e-9, tol_res=1e-9, max_iter_hyd=200,
                                    max_iter_therm=200)
        if not ok:
            return False, {"skipped": err}
        out.append(net)
    na, nb = out
    bad = []
    for la in na.pipe.index:
        if int(na.pipe.at[la, "sections"]) < 2:
            continue
        lb = fwd.get("pipe", {}).get(la, la)
        res = []
        for net, lab in ((na, la), (nb, lb)):
            try:
                r = Pipe.get_internal_results(net, np.array([lab]))
                res.append({k: np.asarray(val)[:, 1].tolist() for k, val in r.items()})
            except Exception as e:   # noqa
                res.append({"raised": repr(e)[:120]})
        ra, rb = res
        if "raised" in ra or "raised" in rb:
            if ("raised" in ra) != ("raised" in rb):
                bad.append("pipe %s / %s: %s vs %s" % (la, lb, ra.get("raised", "values"), rb.get("raised", "values")))
            continue
        for k in ra:
            x, y = np.asarray(ra[k], dtype=float), np.asarray(rb[k], dtype=float)
            if x.shape != y.shape or (x.size and np.nanmax(np.abs(x - y) / (1 + np.abs(x))) > 1e-6):
                bad.append("pipe %s / %s: %s %s vs %s" % (la, lb, k, x.tolist(), y.tolist()))
                break
    return bool(bad), {"bad": bad[:3]}


def replay(rs):
    if rs.get("kind") == "internals":
        return _internals_compare(rs["spec"], rs["variant"], rs["vseed"], bool(rs.get("numba")), rs.get("pfmode") or "hydraulics")
    a, b = rs["spec"], rs["specB"]
    fwd = {t: {int(k): v for k, v in m.items()} for t, m in rs["fwd"].items()}
    ident = {t: {int(k): v for k, v in m.items()} for t, m in rs["identB"].items()}
    mode = rs.get("pfmode") or "hydraulics"
    for values in (rs.get("values", {}), {}):
        res = []
        for spec, idm in ((a, None), (b, ident)):
            net, _ = nets.build(spec, nets.concrete_valuer(values), ident=idm)
            ok, err = concrete_pipeflow(net, use_numba=bool(rs.get("numba")), mode=mode, tol_p=1e-9, tol_m=1e-9,
                                        tol_res=1e-9, max_iter_hyd=200, max_iter_therm=200)
            res.append((net, ok, err))
        (na, oka, ea), (nb, okb, eb) = res
        if oka != okb:
            return True, {"convergence differs": [ea, eb]}
        if not oka:
            continue
        worst, where = equiv.max_result_gap(na, nb, row_map=lambda tbl, ix: fwd.get(tbl, {}).get(ix, ix))
        return worst > 1e-6, {"worst": worst, "where": where}
    return False, {"both fail": True}


def main(argv=None):
    return runner.run(PROP, "checks.c06", jobs, META, argv)
