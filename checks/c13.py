"""C13 — each time-series step equals a stand-alone calculation with that step's inputs.

The real run_timeseries -> run_loop -> pandapower.run_time_step -> run_control -> ConstControl chain is executed with an
object-dtype profile frame of symbols; the run function is the real (symbolically executed) pandapipes.pipeflow.  For
every step the captured result tables are proved (z3) equal to those of a stand-alone symbolic pipeflow on a fresh net
carrying that step's profile symbols, and no profile symbol of another step occurs in them (free-variable check).
Divergence is forced at chosen steps through the verdict stub: the real exception path must flag exactly those steps
and, with continue_on_divergence, leave the later steps equal to their stand-alone runs.
"""
import copy
import importlib
import itertools

import numpy as np
import pandas as pd
import z3

from svx import harness as H, nets, catalog, stubs, runner, discharge as D, equiv
from svx.catalog import E
from svx.sym import Sym, _t, real, ENG, free_vars
from svx.common import finish_worker, is_nan, concrete_pipeflow

PROP = "C13"

META = {
    "level": "model_checking",
    "functions": ["timeseries.run_time_series.run_timeseries/init_time_series/run_loop/pf_not_converged",
                  "control.run_control.run_control/prepare_run_ctrl", "pandapower run_time_step / ConstControl (real, outside the repo)",
                  "pandapipes.pipeflow (symbolic run function)"],
    "files": ["src/pandapipes/timeseries/run_time_series.py", "src/pandapipes/control/run_control.py", "src/pandapipes/pipeflow.py"],
    "stubs": ["pandapower OutputWriter bypassed: results are captured through output_writer_fct (it stores into float arrays)",
              "verdict per step forced through the finalize_iteration stub"] + stubs.STUB_LIST,
    "assumptions": ["profile values symbolic, time steps and controlled elements enumerated",
                    "same arbitrary pre-state symbols in every step and in the stand-alone run (identity-named)"],
    "bound": "2 structures x 1-2 controlled elements x step lists of length <= 3 (orders / subsets) x every subset of diverging steps",
    "outside": ["OutputWriter itself, file output", "multi-energy time series (C20 covers the coupled run)"],
    "rule": "one obligation per (step, result cell) + taint + divergence flags",
}


def ts_specs():
    return [
        {"name": "w_ts", "fluid": "water", "nj": 3, "elems": [E("ext_grid", j=0), E("pipe", f=0, to=1, sections=2), E("pipe", f=1, to=2),
                                                              E("sink", j=2), E("sink", j=1), E("source", j=1)]},
        {"name": "g_ts", "fluid": "gas", "nj": 3, "elems": [E("ext_grid", j=0), E("pipe", f=0, to=1), E("pipe", f=1, to=2),
                                                            E("sink", j=2), E("sink", j=1)]},
    ]


def _capture_tables(net):
    out = {}
    for k in net.keys():
        if isinstance(k, str) and k.startswith("res_") and hasattr(net[k], "columns") and len(net[k]):
            out[k] = net[k].copy(deep=True)
    return out


def worker(job):
    import pandapipes as pp
    import pandapower.control as control
    from pandapower.timeseries import DFData
    from pandapipes.timeseries import run_timeseries
    rts = importlib.import_module("pandapipes.timeseries.run_time_series")
    patched, ass = H.install(numba_pyfunc=False)
    spec, steps, fail = job["spec"], job["steps"], set(job["fail"])
    cut = set(job.get("cut") or [])          # steps whose profile takes the only feeder out of service
    toggle = set(job.get("toggle") or [])    # steps whose profile takes the last pipe out of service (topology changes)
    pfopts = dict(job.get("pfopts") or {})   # options handed to every calculation of the series (and to the stand-alone runs)
    cont = job["continue"]
    is_gas = spec["fluid"] != "water"
    ctrl_elems = job["controlled"]            # list of (table, index)
    nrows = max(steps) + 1
    holder = {"cap": {}, "flags": {}, "cur": None}
    orig_rts = rts.run_time_step

    def rts_wrapper(net, time_step, ts_variables, *a, **kw):
        holder["cur"] = time_step
        H.CTX.force_fail = time_step in fail
        n0 = len(stubs.CTX.systems)
        try:
            return orig_rts(net, time_step, ts_variables, *a, **kw)
        finally:
            H.CTX.force_fail = False
            holder.setdefault("sys", {})[time_step] = (n0, len(stubs.CTX.systems))

    def capture(net, time_step, pf_converged, ctrl_converged, ts_variables):
        holder["cap"][time_step] = _capture_tables(net) if pf_converged else None
        holder["flags"][time_step] = (bool(pf_converged), bool(ctrl_converged))

    def prof_sym(tbl, ix, t):
        return real("prof.%s[%s]@%d" % (tbl, ix, t))

    def run_ts():
        holder["cap"].clear()
        holder["flags"].clear()
        holder.pop("sys", None)
        net, names = nets.build(spec, nets.sym_valuer(), fluid=stubs.make_sym_fluid(is_gas))
        cols = {}
        for tbl, ix in ctrl_elems:
            cols["%s_%s" % (tbl, ix)] = np.array([prof_sym(tbl, ix, t) for t in range(nrows)], dtype=object)
        ds = DFData(pd.DataFrame(cols))
        ds_on = DFData(pd.DataFrame({"feeder_on": np.array([t not in cut for t in range(nrows)], dtype=bool)}))
        for tbl, ix in ctrl_elems:
            control.ConstControl(net, element=tbl, variable="mdot_kg_per_s", element_index=[ix], data_source=ds,
                                 profile_name=["%s_%s" % (tbl, ix)])
        if cut:
            control.ConstControl(net, element="ext_grid", variable="in_service", element_index=list(net.ext_grid.index),
                                 data_source=ds_on, profile_name=["feeder_on"] * len(net.ext_grid))
        if toggle:
            ds_tg = DFData(pd.DataFrame({"pipe_on": np.array([t not in toggle for t in range(nrows)], dtype=bool)}))
            control.ConstControl(net, element="pipe", variable="in_service", element_index=[net.pipe.index[-1]],
                                 data_source=ds_tg, profile_name=["pipe_on"])
        rts.run_time_step = rts_wrapper
        exc = None
        try:
            run_timeseries(net, time_steps=list(steps), continue_on_divergence=cont, verbose=False,
                           output_writer_fct=capture, mode="hydraulics", use_numba=False, **pfopts)
        except Exception as e:
            exc = e
        finally:
            rts.run_time_step = orig_rts
        return dict(cap=dict(holder["cap"]), flags=dict(holder["flags"]), exc=exc, sys=dict(holder.get("sys", {})))

    def run_alone(t):
        def f():
            net, names = nets.build(spec, nets.sym_valuer(), fluid=stubs.make_sym_fluid(is_gas))
            for tbl, ix in ctrl_elems:
                net[tbl].at[ix, "mdot_kg_per_s"] = prof_sym(tbl, ix, t)
            if t in toggle:
                net.pipe.at[net.pipe.index[-1], "in_service"] = False
            pp.pipeflow(net, mode="hydraulics", use_numba=False, **pfopts)
            return net
        return f
    _, names = nets.build(spec, nets.sym_valuer())
    A = list(ass) + nets.admissibility(names)

    class W(H.Witness):
        def __missing__(self, name):
            if name.startswith("prof."):
                t = int(name.rsplit("@", 1)[1])
                self[name] = (0.05 if is_gas else 0.4) * (1 + 0.3 * t)
                return self[name]
            return super().__missing__(name)
    H.CTX.fixed = set()
    ex0 = H.explore_witnesses(run_alone(steps[0]), [W(dict(names))], A)
    if ex0.paths[0].exc is not None:
        return finish_worker(job, ex0, [], errors=["stand-alone run raised %r" % (ex0.paths[0].exc,)])
    H.CTX.fixed = H.discover_fixed(ex0.paths[0].systems)
    ext = H.explore_witnesses(run_ts, [W(dict(names))], A)
    pt = ext.paths[0]
    viol, errs = [], []

    def bad(fp, what):
        viol.append({"fingerprint": fp, "detail": {"job": job["name"], "what": what},
                     "replay": {"kind": "ts", "spec": spec, "steps": steps, "fail": sorted(fail - cut), "cut": sorted(cut),
                                "toggle": sorted(toggle), "pfopts": pfopts,
                                "continue": cont, "controlled": ctrl_elems, "values": {}}})
    if pt.exc is not None:
        return finish_worker(job, ext, [], errors=["time series raised %r" % (pt.exc,)])
    out = pt.value
    fail = fail | cut              # from here on: every step that must be flagged as failed
    # --- divergence handling
    first_fail = next((t for t in steps if t in fail), None)
    if out["exc"] is not None:
        if cont or first_fail is None:
            bad("C13/divergence/raised", "run_timeseries raised %r" % (out["exc"],))
    elif first_fail is not None and not cont:
        bad("C13/divergence/not_raised", "step %s diverged, continue_on_divergence=False, but run_timeseries returned" % first_fail)
    expected_steps = steps if (cont or first_fail is None) else steps[:steps.index(first_fail) + 1]
    n_ev = 0
    for t in expected_steps:
        n_ev += 1
        if t not in out["flags"]:
            if not (t in fail and not cont):
                bad("C13/step_missing", "no output call for step %s" % t)
            continue
        pfc, _cc = out["flags"][t]
        if pfc != (t not in fail):
            bad("C13/divergence/flag", "step %s: reported pf_converged=%s, forced verdict %s" % (t, pfc, t not in fail))
    # --- every converged step equals its stand-alone run
    exa = [ext]
    for t in expected_steps:
        if t in fail or out["cap"].get(t) is None:
            continue
        exb = H.explore_witnesses(run_alone(t), [W(dict(pt.witness))], A)
        pb = exb.paths[0]
        exa.append(exb)
        if pb.exc is not None:
            errs.append("stand-alone run of step %s raised %r" % (t, pb.exc))
            continue
        netb = pb.value
        hy = A + pt.facts + pb.facts + pt.path + pb.path + pt.defined + pb.defined + pb.lin
        others = ["@%d" % u for u in range(nrows) if u != t]
        # the Newton system the step assembled == the one of the stand-alone run (the results are `state - update`
        # with identically named update unknowns, so everything that enters through the matrix or the right-hand side
        # is compared here), and no profile value of another step occurs in it
        n0, n1 = out["sys"].get(t, (0, 0))
        sys_t, sys_b = pt.systems[n0:n1], pb.systems
        D.STATS.obligations += 1
        if len(sys_t) != len(sys_b):
            bad("C13/step_equals_standalone", "step %s assembled %d systems, the stand-alone run %d" % (t, len(sys_t), len(sys_b)))
        else:
            D.STATS.rewriter += 1
        for k_, (sa_, sb_) in enumerate(zip(sys_t, sys_b)):
            so, se = equiv.system_obligations(sa_, sb_, "step %s system %d" % (t, k_))
            for msg in se:
                bad("C13/step_equals_standalone", "step %s: %s" % (t, msg))
            for lab_, x_, y_ in so:
                if len([v for v in viol if v["fingerprint"] in ("C13/step_equals_standalone", "C13/taint")]) >= 4:
                    break
                if isinstance(x_, Sym):
                    leak = [v for v in free_vars(x_.t) if v.startswith("prof.") and any(v.endswith(o) for o in others)]
                    if leak:
                        bad("C13/taint", "%s depends on %s of another step" % (lab_, leak[0]))
                        continue
                r, m, how = D.check(hy, _t(x_) == _t(y_), sample=lab_, timeout_ms=4000, witness=(pb.witness, H.witness_funcs()))
                if r == 'sat':
                    bad("C13/step_equals_standalone", lab_)
                elif r == 'unknown':
                    job.setdefault("_inconclusive", []).append(lab_)
        for key, ta in out["cap"][t].items():
            if key not in netb:
                continue
            tb_ = netb[key]
            for col in ta.columns:
                for ix in ta.index:
                    x, y = ta.at[ix, col], tb_.at[ix, col]
                    lab = "step %s %s.%s[%s]" % (t, key, col, ix)
                    if isinstance(x, Sym):
                        fv = free_vars(x.t)
                        leak = [v for v in fv if v.startswith("prof.") and any(v.endswith(o) for o in others)]
                        D.STATS.obligations += 1
                        if leak:
                            bad("C13/taint", "%s depends on %s of another step" % (lab, leak[0]))
                        else:
                            D.STATS.rewriter += 1
                    if is_nan(x) or is_nan(y):
                        D.STATS.obligations += 1
                        if is_nan(x) and is_nan(y):
                            D.STATS.rewriter += 1
                        else:
                            bad("C13/step_equals_standalone", lab + " NaN-ness differs")
                        continue
                    if len([v for v in viol if v["fingerprint"] == "C13/step_equals_standalone"]) >= 3:
                        continue
                    r, m, how = D.check(hy, _t(x) == _t(y), sample=lab, timeout_ms=4000, witness=(pb.witness, H.witness_funcs()))
                    if r == 'sat':
                        bad("C13/step_equals_standalone", lab)
                    elif r == 'unknown':
                        job.setdefault("_inconclusive", []).append(lab)
    ex = exa[0]
    for e in exa[1:]:
        ex.paths += e.paths
    return finish_worker(job, ex, viol, errors=errs, evaluated=n_ev)


def replay(rs):
    """real run_timeseries with the real pipeflow; diverging steps are provoked with a load that makes the hydraulics
    infeasible; every converged step is compared with a stand-alone pipeflow"""
    import pandapipes as pp
    import pandapower.control as control
    from pandapower.timeseries import DFData
    from pandapipes.timeseries import run_timeseries
    spec, steps, fail, cont = rs["spec"], rs["steps"], set(rs["fail"]), rs["continue"]
    cut = set(rs.get("cut") or [])
    toggle = set(rs.get("toggle") or [])
    pfopts = dict(rs.get("pfopts") or {})
    is_gas = spec["fluid"] != "water"
    nrows = max(steps) + 1
    base = 0.05 if is_gas else 0.4
    huge = 1e6

    def val(t):
        return huge if t in fail else base * (1 + 0.3 * t)
    net, _ = nets.build(spec, nets.concrete_valuer({}))
    cols = {"%s_%s" % (tbl, ix): np.array([val(t) for t in range(nrows)]) for tbl, ix in rs["controlled"]}
    ds = DFData(pd.DataFrame(cols))
    ds_on = DFData(pd.DataFrame({"feeder_on": np.array([t not in cut for t in range(nrows)], dtype=bool)}))
    for tbl, ix in rs["controlled"]:
        control.ConstControl(net, element=tbl, variable="mdot_kg_per_s", element_index=[ix], data_source=ds,
                             profile_name=["%s_%s" % (tbl, ix)])
    if cut:
        control.ConstControl(net, element="ext_grid", variable="in_service", element_index=list(net.ext_grid.index),
                             data_source=ds_on, profile_name=["feeder_on"] * len(net.ext_grid))
    if toggle:
        ds_tg = DFData(pd.DataFrame({"pipe_on": np.array([t not in toggle for t in range(nrows)], dtype=bool)}))
        control.ConstControl(net, element="pipe", variable="in_service", element_index=[net.pipe.index[-1]],
                             data_source=ds_tg, profile_name=["pipe_on"])
    fail = fail | cut
    cap, flags = {}, {}

    def capture(net_, time_step, pf_converged, ctrl_converged, ts_variables):
        flags[time_step] = bool(pf_converged)
        cap[time_step] = {k: net_[k].copy() for k in net_.keys() if isinstance(k, str) and k.startswith("res_")
                          and hasattr(net_[k], "columns") and len(net_[k])} if pf_converged else None
    exc = None
    try:
        run_timeseries(net, time_steps=list(steps), continue_on_divergence=cont, verbose=False, output_writer_fct=capture,
                       mode="hydraulics", max_iter_hyd=30, **pfopts)
    except Exception as e:
        exc = e
    badl = []
    first_fail = next((t for t in steps if t in fail), None)
    if exc is not None and (cont or first_fail is None):
        badl.append("raised %r" % exc)
    if exc is None and first_fail is not None and not cont:
        badl.append("diverged step %s did not raise" % first_fail)
    for t in steps:
        if t in flags and flags[t] != (t not in fail):
            badl.append("step %s flag %s" % (t, flags[t]))
        if t in fail or cap.get(t) is None:
            continue
        nb, _ = nets.build(spec, nets.concrete_valuer({}))
        for tbl, ix in rs["controlled"]:
            nb[tbl].at[ix, "mdot_kg_per_s"] = val(t)
        if t in toggle:
            nb.pipe.at[nb.pipe.index[-1], "in_service"] = False
        ok, err = concrete_pipeflow(nb, mode="hydraulics", max_iter_hyd=30, **pfopts)
        if not ok:
            badl.append("stand-alone step %s failed: %s" % (t, err))
            continue
        for key, ta in cap[t].items():
            d = np.nanmax(np.abs(ta.values.astype(float) - nb[key].values.astype(float)) / (1 + np.abs(nb[key].values.astype(float))))
            if d > 1e-6:
                badl.append("step %s %s differs by %r" % (t, key, d))
    return bool(badl), {"bad": badl[:5]}


def jobs(tier, seed):
    out = []
    for s in ts_specs():
        ctrls = [[("sink", 0)], [("sink", 0), ("sink", 1)]]
        step_lists = [[0, 1], [1, 0], [0, 2], [0, 1, 2], [2, 0, 1]] if tier == "quick" else \
            [list(p) for r in (2, 3) for p in itertools.permutations(range(3), r)]
        for ci, ce in enumerate(ctrls):
            for st in step_lists:
                if tier == "quick" and ci == 1 and len(st) == 3:
                    continue
                fails = [[]] + [[t] for t in st[:2]]
                for fl in fails:
                    for cont in ((True, False) if fl else (False,)):
                        out.append({"name": "%s/ctrl%d/steps%s/fail%s/%s" % (s["name"], ci, "".join(map(str, st)), "".join(map(str, fl)) or "-",
                                                                             "cont" if cont else "stop"),
                                    "spec": s, "controlled": ce, "steps": st, "fail": fl, "continue": cont})
        # a step whose profile takes the only feeder out of service: the run fails before any Newton loop
        for st, ct in (([0, 1, 2], [1]), ([0, 1], [1]), ([1, 0], [1])):
            for cont in (True, False):
                out.append({"name": "%s/ctrl0/steps%s/cut%s/%s" % (s["name"], "".join(map(str, st)), "".join(map(str, ct)),
                                                                   "cont" if cont else "stop"),
                            "spec": s, "controlled": ctrls[0], "steps": st, "fail": [], "cut": ct, "continue": cont})
        # the topology changes from step to step while the matrix-update option is on (no internal data may be carried over)
        for st, tg in (([0, 1, 2], [1]), ([1, 0], [1])):
            out.append({"name": "%s/ctrl0/steps%s/toggle%s/update" % (s["name"], "".join(map(str, st)), "".join(map(str, tg))),
                        "spec": s, "controlled": ctrls[0], "steps": st, "fail": [], "toggle": tg, "continue": False,
                        "pfopts": {"only_update_hydraulic_matrix": True}})
    return out


def main(argv=None):
    return runner.run(PROP, "checks.c13", jobs, META, argv)
