"""C12 — pipeflow is a pure, repeatable function of the network description.

  purity    every input table cell, the fluid, std types, stored user options and default options are
            the same objects / terms after a symbolic pipeflow as in a pristine build
  history   the last call of a bounded history of calls (other modes / options / failed runs / edited and
            restored loads, each earlier call on its own symbol family) equals a call on a fresh net:
            Newton systems and all results equal for all values, and no symbol of an earlier call
            occurs in any result (taint by construction)
  iterate   the same histories without havoc: the *first assembled system* of the last call, started
            from whatever the earlier calls left behind, equals that of a fresh net
  heat      mode="heat" started from a stored hydraulic solution == mode="sequential"
"""
import copy
import random

import numpy as np
import z3

from svx import harness as H, nets, catalog, stubs, runner, equiv, discharge as D
from svx.sym import Sym, _t, ENG, free_vars
from svx.common import concrete_pipeflow, finish_worker, is_nan, expected_exc

PROP = "C12"

META = {
    "level": "model_checking",
    "functions": ["pipeflow.pipeflow/hydraulics/heat_transfer/bidirectional (internal data handling)",
                  "pf.pipeflow_setup.init_options/create_lookups/initialize_pit/create_empty_pit/init_all_result_tables",
                  "all create_pit_*_entries (input table access)", "use_given_hydraulic_results"],
    "files": ["src/pandapipes/pipeflow.py", "src/pandapipes/pf/pipeflow_setup.py",
              "src/pandapipes/component_models/abstract_models/branch_w_internals_models.py",
              "src/pandapipes/component_models/abstract_models/branch_wo_internals_models.py"],
    "stubs": stubs.STUB_LIST,
    "assumptions": ["bit-identity of floats is outside: equality of result *terms* over the reals is shown",
                    "earlier calls run on their own symbol families (suffix @c<i>); a leak shows up as a foreign symbol "
                    "or as an unequal term", "user_pf_options['hyd_flag'] is the documented exception of 'unchanged'"],
    "bound": {"quick": "purity on 8 structures x modes; 11 histories of length 2-3 on 3 structures, with and without havoc",
              "thorough": "all ordered pairs (10 earlier call kinds x 3 last call kinds) + 16 triples + the 9 named histories, with and without havoc, on 5 structures"},
    "outside": ["histories longer than 3 calls", "float bit patterns"],
    "rule": "purity: one obligation per input cell (evaluated identity / term equality); history: system entries + result cells",
}


# ---- purity ---------------------------------------------------------------------------------------------
def _same(a, b):
    if isinstance(a, Sym) or isinstance(b, Sym):
        if not (isinstance(a, Sym) and isinstance(b, Sym)):
            return False
        return a.t.eq(b.t) or D.is_zero_by_rewriter(a.t - b.t)
    if is_nan(a) and is_nan(b):
        return True
    try:
        return bool(a == b)
    except Exception:
        return a is b


def purity_worker(job):
    import pandapipes as pp
    spec = job["spec"]
    numba = bool(job["numba"])
    patched, ass = H.install(numba_pyfunc=numba)
    is_gas = spec["fluid"] != "water"
    kw = dict(mode=job["pfmode"], use_numba=numba)
    viol, holder = [], {}

    def run():
        net, names = nets.build(spec, nets.sym_valuer(), fluid=stubs.make_sym_fluid(is_gas))
        net.user_pf_options = {"tol_p": 1e-6, "some_user_key": 3, "iter": 30}
        holder["pristine"], _ = nets.build(spec, nets.sym_valuer(), fluid=None)
        holder["fluid_props"] = dict(net.fluid.all_properties)
        holder["std"] = copy.deepcopy({k: sorted(v.keys()) for k, v in net.std_types.items()})
        from pandapipes.pf import pipeflow_setup as ps
        holder["defaults"] = copy.deepcopy(ps.default_options)
        pp.pipeflow(net, **kw)
        return net
    _, names = nets.build(spec, nets.sym_valuer())
    A = list(ass) + nets.admissibility(names)
    H.CTX.fixed = set()
    ex = H.explore_witnesses(run, [H.Witness(dict(names))], A)
    p = ex.paths[0]
    if p.exc is not None:
        return finish_worker(job, ex, [], errors=[] if expected_exc(p.exc) else ["raised %r" % (p.exc,)])
    net, pr = p.value, holder["pristine"]
    n_ev = 0
    for key in pr.keys():
        if not isinstance(key, str) or key.startswith("_") or key.startswith("res_"):
            continue
        a, b = pr[key], net[key] if key in net else None
        if hasattr(a, "columns"):
            if b is None or list(a.columns) != list(b.columns) or list(a.index) != list(b.index):
                viol.append(_pv(job, "table %s changed shape / columns / index" % key, key))
                continue
            for col in a.columns:
                for ix in a.index:
                    n_ev += 1
                    if not _same(a.at[ix, col], b.at[ix, col]):
                        viol.append(_pv(job, "%s.%s[%s] changed by pipeflow" % (key, col, ix), key, col))
                        break
    from pandapipes.pf import pipeflow_setup as ps
    n_ev += 4
    if ps.default_options != holder["defaults"]:
        viol.append(_pv(job, "default_options mutated", "default_options"))
    upo = {k: v for k, v in net.user_pf_options.items() if k != "hyd_flag"}
    if upo != {"tol_p": 1e-6, "some_user_key": 3, "iter": 30}:
        viol.append(_pv(job, "user_pf_options mutated: %r" % upo, "user_pf_options"))
    if dict(net.fluid.all_properties) != holder["fluid_props"]:
        viol.append(_pv(job, "fluid properties replaced", "fluid"))
    if {k: sorted(v.keys()) for k, v in net.std_types.items()} != holder["std"]:
        viol.append(_pv(job, "std_types changed", "std_types"))
    D.STATS.obligations += n_ev
    D.STATS.rewriter += n_ev - len(viol)
    return finish_worker(job, ex, viol, evaluated=n_ev)


def _pv(job, what, table, col=None):
    return {"fingerprint": "C12/purity/%s%s" % (table, "." + col if col else ""),
            "detail": {"job": job["name"], "what": what},
            "replay": {"kind": "purity", "spec": job["spec"], "pfmode": job["pfmode"], "numba": job["numba"],
                       "table": table, "col": col, "values": {}}}


def replay_purity(rs):
    import pandas as pd
    net, _ = nets.build(rs["spec"], nets.concrete_valuer(rs.get("values", {})))
    net.user_pf_options = {"tol_p": 1e-6, "some_user_key": 3, "iter": 30}
    before = copy.deepcopy({k: v.copy() for k, v in net.items() if isinstance(k, str) and hasattr(v, "columns")
                            and not k.startswith("res_") and not k.startswith("_")})
    ok, err = concrete_pipeflow(net, use_numba=bool(rs.get("numba")), mode=rs.get("pfmode") or "hydraulics")
    changed = []
    for k, df in before.items():
        try:
            pd.testing.assert_frame_equal(df, net[k], check_exact=True)
        except AssertionError as e:
            changed.append("%s: %s" % (k, str(e).splitlines()[0][:100]))
    upo = {k: v for k, v in net.user_pf_options.items() if k != "hyd_flag"}
    if upo != {"tol_p": 1e-6, "some_user_key": 3, "iter": 30}:
        changed.append("user_pf_options %r" % upo)
    return bool(changed), {"changed": changed, "pipeflow_ok": ok}


# ---- histories ---------------------------------------------------------------------------------------------
def histories(tier):
    H_ = []
    base = dict(mode="hydraulics")
    H_.append(("same_twice", [dict(base)], dict(base)))
    H_.append(("seq_then_hyd", [dict(mode="sequential")], dict(base)))
    H_.append(("hyd_then_seq", [dict(base)], dict(mode="sequential")))
    H_.append(("reuse_then_plain", [dict(base, only_update_hydraulic_matrix=True, reuse_internal_data=True)], dict(base)))
    H_.append(("fail_then_ok", [dict(base, _fail=True)], dict(base)))
    H_.append(("ok_fail_ok", [dict(base), dict(mode="sequential", _fail=True)], dict(mode="sequential")))
    H_.append(("colebrook_then_nikuradse", [dict(base, friction_model="swamee-jain")], dict(base)))
    H_.append(("bidirectional_then_hyd", [dict(mode="bidirectional")], dict(base)))
    H_.append(("alpha_then_default", [dict(base, alpha=0.5, tol_p=1e-2, ambient_temperature=300.0)], dict(base)))
    # the matrix structure changes between two calls with the update option (an element switched off and on again)
    H_.append(("update_topology_restored", [dict(base, only_update_hydraulic_matrix=True, _toggle=("pipe", -1))],
               dict(base, only_update_hydraulic_matrix=True)))
    H_.append(("update_reuse_topology_restored", [dict(base), dict(base, only_update_hydraulic_matrix=True, _toggle=("pipe", 0))],
               dict(base, only_update_hydraulic_matrix=True)))
    # ... and the earlier call with the other topology did not converge (nothing of a failed run may survive it)
    H_.append(("update_failed_topology_restored", [dict(base, only_update_hydraulic_matrix=True, _toggle=("pipe", -1), _fail=True)],
               dict(base, only_update_hydraulic_matrix=True)))
    H_.append(("reuse_failed_topology_restored", [dict(base, only_update_hydraulic_matrix=True, reuse_internal_data=True,
                                                       _toggle=("pipe", 0), _fail=True)],
               dict(base, only_update_hydraulic_matrix=True)))
    if tier == "thorough":
        # every ordered pair (earlier call kind, last call kind) and a deterministic sample of triples
        kinds = {"hyd": dict(base), "seq": dict(mode="sequential"), "bid": dict(mode="bidirectional"),
                 "reuse": dict(base, only_update_hydraulic_matrix=True, reuse_internal_data=True),
                 "hydF": dict(base, _fail=True), "seqF": dict(mode="sequential", _fail=True), "bidF": dict(mode="bidirectional", _fail=True),
                 "sj": dict(base, friction_model="swamee-jain"), "opts": dict(base, alpha=0.5, tol_p=1e-2, ambient_temperature=300.0),
                 "seq_reuse": dict(mode="sequential", only_update_hydraulic_matrix=True, reuse_internal_data=True)}
        lasts = {"hyd": dict(base), "seq": dict(mode="sequential"), "bid": dict(mode="bidirectional")}
        for kn, kw in kinds.items():
            for ln, lw in lasts.items():
                H_.append(("p_%s_%s" % (kn, ln), [dict(kw)], dict(lw)))
        import random
        rng = random.Random(1212)
        names = sorted(kinds)
        for i in range(16):
            a, b = rng.choice(names), rng.choice(names)
            ln = rng.choice(sorted(lasts))
            H_.append(("t_%s_%s_%s" % (a, b, ln), [dict(kinds[a]), dict(kinds[b])], dict(lasts[ln])))
    return H_


def history_worker(job):
    numba = bool(job["numba"])
    H.install(numba_pyfunc=numba)
    spec = job["spec"]
    pre = [dict(kw, use_numba=numba) for kw in job["pre"]]
    last = dict(job["last"], use_numba=numba)
    H.CTX.havoc = bool(job["havoc"])
    try:
        ra = equiv.RunSpec(spec, last, pre_calls=pre, relabel_loads_between=True)
        rb = equiv.RunSpec(spec, last)

        def cells(neta, netb):
            out = equiv.default_cells(neta, netb)
            # taint: no symbol of an earlier call in any result of the last call
            for lab, x, y in out:
                if isinstance(x, Sym):
                    fv = free_vars(x.t)
                    bad = [v for v in fv if "@c" in v or "@first" in v]
                    if bad:
                        out.append((lab + " carries symbol %s of an earlier call" % bad[0], 1.0, 0.0))
            return out
        r = equiv.equiv_worker(job, ra, rb, fp_prefix="C12/history", replay_kind="history", cells_fn=cells,
                               replay_extra={"pre": job["pre"], "last": job["last"]})
    finally:
        H.CTX.havoc = True
    return r


def replay_history(rs):
    spec = rs["spec"]
    numba = bool(rs.get("numba"))
    tight = dict(tol_p=1e-10, tol_m=1e-10, tol_res=1e-10, tol_T=1e-9, max_iter_hyd=300, max_iter_therm=300,
                 max_iter_bidirect=300)
    for values in (rs.get("values", {}), {}):
        vals = {k: v for k, v in values.items() if "@" not in k}
        na, names = nets.build(spec, nets.concrete_valuer(vals))
        saved = {}
        for tbl in ("sink", "source", "mass_storage"):
            if tbl in na and len(na[tbl]):
                saved[tbl] = na[tbl]["mdot_kg_per_s"].copy()
                na[tbl]["mdot_kg_per_s"] = na[tbl]["mdot_kg_per_s"] * 0.5
        for kw in rs["pre"]:
            kw = dict(kw)
            fail = kw.pop("_fail", False)
            toggle = kw.pop("_toggle", None)
            if toggle is not None:
                tcol = "opened" if toggle[0] == "valve" else "in_service"
                tix = na[toggle[0]].index[toggle[1]]
                told = na[toggle[0]].at[tix, tcol]
                na[toggle[0]].at[tix, tcol] = False
            kk = dict(tight, **kw)
            if fail:
                kk.update(max_iter_hyd=1, max_iter_therm=1, max_iter_bidirect=1, tol_p=1e-14, tol_m=1e-14)
            concrete_pipeflow(na, use_numba=numba, **kk)
            if toggle is not None:
                na[toggle[0]].at[tix, tcol] = told
        for tbl, col in saved.items():
            na[tbl]["mdot_kg_per_s"] = col
        last = dict(rs["last"])
        oka, ea = concrete_pipeflow(na, use_numba=numba, **dict(tight, **last))
        nb, _ = nets.build(spec, nets.concrete_valuer(vals))
        okb, eb = concrete_pipeflow(nb, use_numba=numba, **dict(tight, **last))
        if oka != okb:
            return True, {"convergence differs": [ea, eb]}
        if not oka:
            continue
        worst, where = equiv.max_result_gap(na, nb)
        return worst > 1e-6, {"worst": worst, "where": where}
    return False, {"both fail": True}


# ---- heat after stored hydraulics == sequential --------------------------------------------------------------------
def heat_worker(job):
    numba = bool(job["numba"])
    H.install(numba_pyfunc=numba)
    spec = job["spec"]
    ra = equiv.RunSpec(spec, dict(mode="heat", use_numba=numba, _sol_vec_from_pit=True),
                       pre_calls=[dict(mode="hydraulics", use_numba=numba)])
    ra.pre_tag = ""
    rb = equiv.RunSpec(spec, dict(mode="sequential", use_numba=numba))

    def cells(neta, netb):
        # thermal results of both; hydraulic columns are not re-extracted by mode="heat"
        out = []
        for lab, x, y in equiv.default_cells(neta, netb):
            col = lab.split(".", 1)[1].split("[")[0]
            if col in ("t_k", "t_from_k", "t_to_k", "t_outlet_k", "deltat_k", "qext_w"):
                out.append((lab, x, y))
        return out
    return equiv.equiv_worker(job, ra, rb, fp_prefix="C12/heat_after_hyd", replay_kind="heat", cells_fn=cells,
                              compare_systems="heat")


def replay_heat(rs):
    from pandapipes.idx_node import PINIT
    from pandapipes.idx_branch import MDOTINIT
    spec = rs["spec"]
    numba = bool(rs.get("numba"))
    tight = dict(tol_p=1e-10, tol_m=1e-10, tol_res=1e-10, tol_T=1e-9, max_iter_hyd=300, max_iter_therm=300)
    for values in (rs.get("values", {}), {}):
        na, _ = nets.build(spec, nets.concrete_valuer(values))
        ok1, e1 = concrete_pipeflow(na, use_numba=numba, mode="hydraulics", **tight)
        if not ok1:
            continue
        u = np.concatenate((na["_pit"]["node"][:, PINIT], na["_pit"]["branch"][:, MDOTINIT]))
        oka, ea = concrete_pipeflow(na, use_numba=numba, mode="heat", sol_vec=u, **tight)
        nb, _ = nets.build(spec, nets.concrete_valuer(values))
        okb, eb = concrete_pipeflow(nb, use_numba=numba, mode="sequential", **tight)
        if oka != okb:
            return True, {"convergence differs": [ea, eb]}
        if not oka:
            continue
        worst, where = 0.0, None
        for lab, x, y in equiv.default_cells(na, nb):
            col = lab.split(".", 1)[1].split("[")[0]
            if col not in ("t_k", "t_from_k", "t_to_k", "t_outlet_k"):
                continue
            try:
                xn, yn = np.isnan(x), np.isnan(y)
            except TypeError:
                continue
            if xn or yn:
                if xn != yn:
                    worst, where = 1.0, lab
                continue
            g = abs(x - y) / (1 + abs(x) + abs(y))
            if g > worst:
                worst, where = g, "%s: %r vs %r" % (lab, x, y)
        return worst > 1e-6, {"worst": worst, "where": where}
    return False, {"both fail": True}


def jobs(tier, seed):
    out = []
    pur = [(catalog.w_line3(), "hydraulics"), (catalog.w_components(), "hydraulics"), (catalog.g_components(), "hydraulics"),
           (catalog.w_circ_loop(), "sequential"), (catalog.w_circ_mass(), "bidirectional"), (catalog.w_oos(), "hydraulics"),
           (catalog.w_nan_loads(), "hydraulics"), (catalog.w_heat_reversed(), "sequential")]
    for s, m in pur:
        for numba in (False, True):
            out.append({"name": "purity/%s/%s/%s" % (s["name"], m, "numba" if numba else "numpy"), "kind": "purity", "spec": s,
                        "pfmode": m, "numba": numba})
    hs = histories(tier)
    structs = [catalog.w_circ_mass(), catalog.w_line3(), catalog.g_line3()]
    if tier == "thorough":
        structs += [catalog.w_circ_loop(), catalog.w_heat_line()]
    for si, s in enumerate(structs):
        for hi, (hn, pre, last) in enumerate(hs):
            thermal = any(k.get("mode") in ("sequential", "bidirectional") for k in pre + [last])
            if thermal and not s["name"].startswith(("w_circ", "w_heat")):
                continue
            if tier == "quick" and si > 0 and hi % 2 == (si % 2):
                continue
            for havoc in (True, False):
                out.append({"name": "history/%s/%s/%s" % (s["name"], hn, "havoc" if havoc else "iterate"), "kind": "history",
                            "spec": s, "pre": pre, "last": last, "havoc": havoc, "numba": False})
    for s in [catalog.w_circ_loop(), catalog.w_circ_mass(), catalog.w_heat_reversed(), catalog.w_heat_line()]:
        out.append({"name": "heat_after_hyd/%s" % s["name"], "kind": "heat", "spec": s, "numba": False})
    return out


def worker(job):
    return {"purity": purity_worker, "history": history_worker, "heat": heat_worker}[job["kind"]](job)


def replay(rs):
    return {"purity": replay_purity, "history": replay_history, "heat": replay_heat}[rs["kind"]](rs)


def main(argv=None):
    return runner.run(PROP, "checks.c12", jobs, META, argv)
