"""C18 — the topology graph agrees with the solver about what is connected.

  distance  calc_distance_to_junction(s) on nets with *symbolic pipe lengths*: networkx' Dijkstra is executed on
            z3 reals (it forks on every comparison); on every path the returned distance of every junction is proved
            (z3, linear arithmetic) to be the minimum over all simple paths of the summed pipe lengths, for all
            positive lengths; multigraph and simple graph
  pattern   per enumerated in_service / opened pattern (evaluation, no solver content - labelled so): junctions
            reported by unsupplied_junctions plus out-of-service ones == junctions without pressure result; one edge
            per in-service junction-junction branch element; a junction-pipe valve adds no edge and removes its
            pipe's edge when closed
"""
import copy
import itertools
import random

import numpy as np
import z3

from svx import harness as H, nets, catalog, stubs, runner, discharge as D
from svx.catalog import E
from svx.sym import Sym, _t, real, ENG
from svx.common import finish_worker, is_nan, concrete_pipeflow
from checks import c04

PROP = "C18"

META = {
    "level": "model_checking",
    "functions": ["topology.create_graph.create_nxgraph/add_branch_component/add_edges", "topology.graph_searches."
                  "calc_distance_to_junction/calc_distance_to_junctions/calc_minimum_distance_to_junctions/unsupplied_junctions",
                  "networkx single_source_dijkstra_path_length (pure Python, executed symbolically)",
                  "pf.pipeflow_setup.check_connectivity (pattern part, through pipeflow)"],
    "files": ["src/pandapipes/topology/create_graph.py", "src/pandapipes/topology/graph_searches.py",
              "src/pandapipes/pf/pipeflow_setup.py"],
    "stubs": ["none for the distance part (networkx runs on symbolic edge weights)"],
    "assumptions": ["pipe lengths symbolic and positive, all other weights 0 (the defaults)",
                    "pattern part: consistent flag patterns; networks in which every pressure-connecting path is also a graph path "
                    "(no junction that hangs on an active flow controller or heat consumer only - there the graph deliberately "
                    "differs, see DESIGN)", "pattern part is decided by evaluation"],
    "bound": {"quick": "distance: 4 graphs (J<=5, <=6 pipes, meshes, parallel pipes, a closed valve) x {multi, simple} x 2 sources; "
                       "pattern: 3 base topologies x 10 seeded flag patterns",
              "thorough": "distance: + 6 random graphs; pattern: all 2^k patterns"},
    "outside": ["include_* / respect_status_* combinations other than the defaults and respect_status_valves=False"],
    "rule": "distance: one obligation per (path, junction); pattern: per pattern evaluated set equalities",
}


def dist_specs():
    S = []
    S.append({"name": "mesh4", "nj": 4, "pipes": [(0, 1), (1, 2), (0, 2), (2, 3), (1, 3)], "valves": []})
    S.append({"name": "parallel", "nj": 4, "pipes": [(0, 1), (0, 1), (1, 2), (2, 3), (0, 3)], "valves": [(1, 3, True)]})
    S.append({"name": "ring5", "nj": 5, "pipes": [(0, 1), (1, 2), (2, 3), (3, 4), (4, 0), (1, 3)], "valves": []})
    S.append({"name": "closed_valve", "nj": 4, "pipes": [(0, 1), (1, 2), (2, 3)], "valves": [(0, 3, False), (0, 2, True)]})
    return S


def build_dist_net(spec, symbolic=True):
    import pandapipes as pp
    import pandas as pd
    net = pp.create_empty_network(fluid="water")
    j = pp.create_junctions(net, spec["nj"], pn_bar=5, tfluid_k=293.15)
    pp.create_ext_grid(net, j[0], p_bar=5, t_k=293.15)
    for k, (a, b) in enumerate(spec["pipes"]):
        pp.create_pipe_from_parameters(net, j[a], j[b], length_km=0.5 + 0.3 * k, inner_diameter_mm=100, k_mm=0.1)
    for a, b, op in spec["valves"]:
        pp.create_valve(net, j[a], j[b], "ju", inner_diameter_mm=100, opened=op)
    if symbolic:
        vals = np.empty(len(net.pipe), dtype=object)
        for i, ix in enumerate(net.pipe.index):
            vals[i] = real("L[%d]" % ix)
        net.pipe["length_km"] = pd.Series(vals, index=net.pipe.index, dtype=object)
    return net


def simple_path_sums(spec, src, multi=True):
    """junction -> list of z3 sums over simple paths (valves weigh 0; closed valves are no edges)"""
    import networkx as nx
    g = nx.MultiGraph()
    g.add_nodes_from(range(spec["nj"]))
    for k, (a, b) in enumerate(spec["pipes"]):
        g.add_edge(a, b, key=("p", k))
    for k, (a, b, op) in enumerate(spec["valves"]):
        if op:
            g.add_edge(a, b, key=("v", k))
    out = {}
    for tgt in range(spec["nj"]):
        if tgt == src:
            out[tgt] = [z3.RealVal(0)]
            continue
        sums = []
        for path in nx.all_simple_edge_paths(g, src, tgt):
            s = z3.RealVal(0)
            for (_, _, key) in path:
                if key[0] == "p":
                    s = s + z3.Real("L[%d]" % key[1])
            sums.append(s)
        out[tgt] = sums
    return out


def distance_worker(job):
    import pandapipes.topology as top
    H.install(symbolic_constants=False)
    from svx import snp as _snp
    _snp.install(extra_prefixes=("pandapipes.topology",))
    spec, src, multi = job["spec"], job["src"], job["multi"]
    A = [z3.Real("L[%d]" % k) > 0 for k in range(len(spec["pipes"]))]

    def run():
        net = build_dist_net(spec)
        if job["fn"] == "single":
            if multi:
                return top.calc_distance_to_junction(net, src)
            import networkx as nx
            import pandas as pd
            g = top.create_nxgraph(net, multi=False)
            return pd.Series(nx.single_source_dijkstra_path_length(g, src, weight="weight"))
        return top.calc_minimum_distance_to_junctions(net, [src])
    ex = H.explore(run, A, max_paths=job.get("max_paths", 300), feas_timeout_ms=2000)
    sums = simple_path_sums(spec, src)
    viol = []
    for pi, p in enumerate(ex.paths):
        if p.exc is not None:
            return finish_worker(job, ex, viol, errors=["path %d raised %r" % (pi, p.exc)])
        d = p.value
        hy = A + list(p.path)
        for tgt, ss in sums.items():
            if not ss:
                if tgt in d.index:
                    viol.append(_dv(job, "junction %d unreachable but has a distance" % tgt))
                continue
            if tgt not in d.index:
                viol.append(_dv(job, "junction %d reachable but has no distance" % tgt))
                continue
            dv = _t(d[tgt])
            if multi or True:
                # a simple graph keeps one of several parallel pipes: its distances are path sums of the graph it
                # built; the minimum property is claimed for the multigraph and for graphs without parallel pipes
                goal = z3.And(z3.Or([dv == x for x in ss]), z3.And([dv <= x for x in ss]))
            r, m, how = D.check(hy, goal, sample="%s path %d junction %d" % (job["name"], pi, tgt), timeout_ms=8000)
            if r == 'sat':
                viol.append({"fingerprint": "C18/distance", "detail": {"job": job["name"], "junction": tgt, "path": pi},
                             "replay": {"kind": "distance", "spec": spec, "src": src, "multi": multi, "fn": job["fn"],
                                        "values": {k: v for k, v in (m or {}).items() if isinstance(v, float)}}})
                break
            elif r == 'unknown':
                job.setdefault("_inconclusive", []).append("junction %d path %d" % (tgt, pi))
    return finish_worker(job, ex, viol)


def _dv(job, what):
    return {"fingerprint": "C18/distance", "detail": {"job": job["name"], "what": what},
            "replay": {"kind": "distance", "spec": job["spec"], "src": job["src"], "multi": job["multi"], "fn": job["fn"], "values": {}}}


def replay_distance(rs):
    import networkx as nx
    import pandas as pd
    import pandapipes.topology as top
    spec, src = rs["spec"], rs["src"]
    net = build_dist_net(spec, symbolic=False)
    for k in range(len(spec["pipes"])):
        v = rs.get("values", {}).get("L[%d]" % k)
        if v is not None and v > 0:
            net.pipe.at[k, "length_km"] = float(v)
    if rs["fn"] == "single":
        if rs["multi"]:
            d = top.calc_distance_to_junction(net, src)
        else:
            d = pd.Series(nx.single_source_dijkstra_path_length(top.create_nxgraph(net, multi=False), src, weight="weight"))
    else:
        d = top.calc_minimum_distance_to_junctions(net, [src])
    g = nx.MultiGraph()
    g.add_nodes_from(range(spec["nj"]))
    for k, (a, b) in enumerate(spec["pipes"]):
        g.add_edge(a, b, weight=float(net.pipe.at[k, "length_km"]))
    for a, b, op in spec["valves"]:
        if op:
            g.add_edge(a, b, weight=0.0)
    ref = nx.single_source_dijkstra_path_length(g, src, weight="weight")
    bad = []
    for tgt in range(spec["nj"]):
        if (tgt in ref) != (tgt in d.index):
            bad.append("junction %d reachability" % tgt)
        elif tgt in ref and abs(ref[tgt] - d[tgt]) > 1e-9:
            bad.append("junction %d: %r vs %r" % (tgt, d[tgt], ref[tgt]))
    return bool(bad), {"bad": bad}


# ---- pattern part ----------------------------------------------------------------------------------------------------------------
def pattern_worker(job):
    import pandapipes.topology as top
    import networkx as nx
    s = c04.apply_pattern(job["spec"], job["bits"])
    s.pop("mode", None)
    viol = []
    n_ev = 0
    net, _ = nets.build(s, nets.concrete_valuer({}))
    ok, err = concrete_pipeflow(net, mode="hydraulics", use_numba=False)
    supplied_solver = set(net.res_junction.index[~np.isnan(net.res_junction.p_bar.values.astype(float))]) if ok else set()
    uj = set(top.unsupplied_junctions(net))
    oos = set(net.junction.index[~net.junction.in_service.values])
    n_ev += 1
    without = set(net.junction.index) - supplied_solver
    if ok and (uj | oos) != without:
        # is the difference explained by edges of elements that prescribe a mass flow (active flow controller,
        # heat consumer)?  The solver does not treat them as pressure-connecting, the graph draws them as edges.
        mg2 = top.create_nxgraph(net, include_flow_controls=False, include_heat_consumers=False)
        uj2 = set(top.unsupplied_junctions(net, mg=mg2))
        v = _pv(job, "unsupplied_junctions + out-of-service = %s, junctions without pressure = %s" % (sorted(uj | oos), sorted(without)))
        if (uj2 | oos) == without:
            v["fingerprint"] = "C18/pattern/flow_prescribing_edge"
        elif "press_control" in net and len(net.press_control):
            # ... or by the direction of pressure controllers?  The solver reaches junctions through a controller only from
            # its inlet to its outlet and treats the controlled junction as a pressure source; the graph draws an edge.
            pc = net.press_control[net.press_control.in_service & net.press_control.control_active]
            mg3 = top.create_nxgraph(net, include_flow_controls=False, include_heat_consumers=False, include_press_controls=False)
            base_sl = (set(net.junction.index) - set(top.unsupplied_junctions(net, mg=mg3)))
            sl = set(net.ext_grid[net.ext_grid.in_service].junction.values)
            for t_ in ("circ_pump_pressure", "circ_pump_mass"):
                if t_ in net and len(net[t_]):
                    sl |= set(net[t_][net[t_].in_service].flow_junction.values)
            sl |= set(pc.controlled_junction.values)
            uj3 = set(top.unsupplied_junctions(net, mg=mg3, slacks=sl))
            if (uj3 | oos) == without:
                v["fingerprint"] = "C18/pattern/directed_press_control"
        viol.append(v)
    if not ok and (uj | oos) != set(net.junction.index):
        # the solver refuses a net without supplied junction; the graph must agree that nothing is supplied
        if "All nodes are set out of service" in (err or ""):
            viol.append(_pv(job, "solver: nothing supplied, graph: supplied %s" % sorted(set(net.junction.index) - uj - oos)))
    # edges: defaults, valve positions ignored, pipe in_service flags ignored
    pv_closed = set()
    if len(net.valve):
        for ix in net.valve.index:
            if net.valve.at[ix, "et"] == "pi" and not net.valve.at[ix, "opened"]:
                pv_closed.add(int(net.valve.at[ix, "element"]))
    jin = set(net.junction.index[net.junction.in_service.values])
    from svx.common import branch_rows
    for args in ({}, {"respect_status_valves": False}, {"respect_status_pipes": False}):
        mg = top.create_nxgraph(net, **args)
        want = []
        for tbl, ix, fj, tj in branch_rows(net):
            act = net[tbl].at[ix, "opened" if tbl == "valve" else "in_service"]
            if tbl == "valve" and args.get("respect_status_valves") is False:
                act = True
            if tbl == "pipe" and args.get("respect_status_pipes") is False:
                act = True
            if not act or fj not in jin or tj not in jin:
                continue
            if tbl == "pipe" and ix in pv_closed and args.get("respect_status_valves") is not False:
                continue        # a closed valve attached to the pipe removes the pipe's edge (unless valve positions are ignored)
            want.append((tbl, ix, fj, tj))
        got = [(k[0], k[1], min(a, b), max(a, b)) for a, b, k in mg.edges(keys=True)]
        want_n = sorted((t, i, min(a, b), max(a, b)) for t, i, a, b in want)
        n_ev += 1
        if sorted(got) != want_n:
            viol.append(_pv(job, "create_nxgraph(%s): graph edges %s, expected one per live junction-junction element %s" % (
                args, sorted(got), want_n)))
    D.STATS.obligations += n_ev
    D.STATS.rewriter += n_ev - len(viol)
    return finish_worker(job, H.Exploration(), viol, evaluated=n_ev)


def _pv(job, what):
    return {"fingerprint": "C18/pattern", "detail": {"job": job["name"], "what": what},
            "replay": {"kind": "pattern", "spec": job["spec"], "bits": job["bits"], "values": {}}}


def replay_pattern(rs):
    job = {"name": "replay", "spec": rs["spec"], "bits": rs["bits"]}
    D.STATS = D.Stats()
    r = pattern_worker(job)
    return bool(r["violations"]), {"what": [v["detail"]["what"] for v in r["violations"]][:3]}


def pattern_bases():
    """the C04 bases without elements that prescribe a mass flow (flow controllers, heat consumers): for those the
    graph (an edge) and the solver (not pressure-connecting) differ by design"""
    out = []
    for s in c04.base_specs():
        if s["name"] in ("w_loop_seq", "w_two_loops"):
            continue
        if s["name"] == "w_tree":
            s2 = copy.deepcopy(s)
            s2["name"] = "w_tree_fc"
            out.append(s2)        # with its active flow controller: known finding F21
        s = copy.deepcopy(s)
        keep, flags = [], []
        for k, e in enumerate(s["elems"]):
            if e["t"] == "flow_control":
                e = E("pipe", f=e["f"], to=e["to"], index=9)
                s["elems"][k] = e
        out.append(s)
        if s["name"] == "w_pi_valve":
            # pipe labels that are not table positions (the closed pipe valve must remove the edge of *its* pipe)
            s3 = copy.deepcopy(s)
            s3["name"] = "w_pi_valve_labels"
            remap = {4: 7, 1: 0, 2: 3}
            for e in s3["elems"]:
                if e["t"] == "pipe":
                    e["index"] = remap[e["index"]]
                if e["t"] == "valve" and e.get("et") == "pi":
                    e["el"] = remap[e["el"]]
            out.append(s3)
    # a temperature-only external grid is no pressure feeder
    out.append({"name": "w_t_feeder", "fluid": "water", "nj": 4, "elems": [
        E("ext_grid", j=0, index=0), E("ext_grid", j=2, type="t", index=1), E("pipe", f=0, to=1, index=0),
        E("pipe", f=2, to=3, index=1), E("valve", j=1, el=2, et="ju", index=0), E("sink", j=1, index=0), E("sink", j=3, index=1)],
        "flags": [("elem", 4, "opened"), ("elem", 0)]})
    # junctions that hang on the inlet side of a pressure controller only (the solver follows controllers from -> to)
    out.append({"name": "w_pc_upstream", "fluid": "water", "nj": 4, "elems": [
        E("ext_grid", j=3, index=0), E("pipe", f=2, to=3, index=0), E("press_control", f=1, to=2, cj=2, index=0),
        E("pipe", f=0, to=1, index=1), E("sink", j=0, index=0), E("source", j=1, index=0)],
        "flags": [("elem", 3), ("elem", 2)]})
    return out


def jobs(tier, seed):
    out = []
    rng = random.Random(1800 + seed)
    dspecs = dist_specs()
    if tier == "thorough":
        # generated connected multigraphs (4-5 junctions, 4-6 pipes, 0-2 junction-junction valves, open or closed)
        for i in range(8):
            nj = rng.choice([4, 5])
            pipes = []
            for j in range(1, nj):
                pipes.append((rng.randrange(0, j), j))
            while len(pipes) < rng.choice([nj, nj + 1]):
                a, b = rng.sample(range(nj), 2)
                pipes.append((a, b))
            valves = []
            for _ in range(rng.choice([0, 1, 2])):
                a, b = rng.sample(range(nj), 2)
                valves.append((a, b, rng.random() < 0.6))
            dspecs.append({"name": "gen%d_s%d" % (i, seed), "nj": nj, "pipes": pipes, "valves": valves})
    for spec in dspecs:
        for src in (0, spec["nj"] - 1):
            for multi in (True, False):
                if not multi and len(set(map(tuple, map(sorted, spec["pipes"])))) != len(spec["pipes"]):
                    continue      # parallel pipes: a simple graph keeps only one of them
                for fn in (("single", "minimum") if multi else ("single",)):
                    out.append({"name": "distance/%s/src%d/%s/%s" % (spec["name"], src, "multi" if multi else "simple", fn),
                                "kind": "distance", "spec": spec, "src": src, "multi": multi, "fn": fn})
    for s in pattern_bases():
        k = len(s["flags"])
        allp = list(itertools.product([True, False], repeat=k))
        if tier == "thorough":
            pats = allp
        else:
            single_off = [tuple(i != j for i in range(k)) for j in range(k)]
            pats = [allp[0], allp[-1]] + single_off + rng.sample(allp[1:-1], min(6, len(allp) - 2))
            pats = list(dict.fromkeys(pats))
        for bits in pats:
            out.append({"name": "pattern/%s/%s" % (s["name"], "".join("1" if b else "0" for b in bits)), "kind": "pattern",
                        "spec": s, "bits": list(bits)})
    return out


def worker(job):
    return {"distance": distance_worker, "pattern": pattern_worker}[job["kind"]](job)


def replay(rs):
    return {"distance": replay_distance, "pattern": replay_pattern}[rs["kind"]](rs)


def main(argv=None):
    return runner.run(PROP, "checks.c18", jobs, META, argv)
