"""C11 — heat exchangers, consumers and circulation pumps report consistent heat duties.

Symbolic run of the real pipeflow at an arbitrary thermal state; hypotheses are the element's *own*
residual row(s) being zero (exact fixed point), decided by z3 for all values:
  duty      heat consumer / exchanger: extracted heat == m * (cp(T_from) + cp(T_out)) / 2 * (T_from - T_out)
  setpoint  the prescribed pair of a heat consumer (of mdot, qext, deltat, treturn) equals its set-points when
            the mass flow is prescribed or the calculation is bidirectional
  pump      heat reported by a circulation pump == m * (cp(T_flow) T_flow - cp(T_ret) T_ret); for a fluid with
            constant heat capacity the loop closes: pump heat == sum of the heat taken out by all branches
"""
import numpy as np
import z3

from svx import harness as H, nets, catalog, stubs, runner, discharge as D, thermal
from svx.catalog import E
from svx.sym import Sym, _t, EXP, rat
from svx.common import concrete_pipeflow, is_nan

PROP = "C11"

META = {
    "level": "model_checking",
    "functions": ["HeatConsumer.create_pit_branch_entries/adaption_*_hydraulic/adaption_*_thermal/extract_results",
                  "HeatExchanger.*", "CirculationPump.extract_results", "derivatives_thermal_* (qext / (cp mdot) term)",
                  "build_system_matrix(heat_mode=True)"],
    "files": ["src/pandapipes/component_models/heat_consumer_component.py",
              "src/pandapipes/component_models/heat_exchanger_component.py",
              "src/pandapipes/component_models/abstract_models/circulation_pump.py",
              "src/pandapipes/pf/derivative_toolbox.py", "src/pandapipes/pf/derivative_toolbox_numba.py"],
    "stubs": stubs.STUB_LIST,
    "assumptions": ["exact fixed point of the element's own rows (finite-tolerance gap outside)", "exp(0) = 1",
                    "forward flow through consumers / exchangers / the pump (|m| > 1e-10), selected by the witness",
                    "loop closure: constant heat capacity (the 'up to the heat-capacity discretisation' of the statement "
                    "made exact) and zero heat capacity dependence on temperature"],
    "bound": {"quick": "one loop with 1-3 consumers / exchangers in parallel and series, all five consumer modes, positive and "
                       "negative heat flows, sequential + bidirectional, numpy + numba py_func",
              "thorough": "same + mixed parallel/series loops"},
    "outside": ["mode QE_TR with t_out >= t_in (consumer switched off by the model)"],
    "rule": "one obligation per element and clause",
}


def specs():
    S = []
    loop = lambda name, mids: {"name": name, "fluid": "water", "nj": 4, "elems": [      # noqa
        E("circ_pump_pressure", ret=3, flow=0), E("pipe", f=0, to=1, u=5.0), E("pipe", f=2, to=3, u=5.0)] + mids}
    S.append(loop("qe_mf", [E("heat_consumer", f=1, to=2, mdot=1.0, qext_w=20000.0), E("heat_consumer", f=1, to=2, mdot=0.5, qext_w=-4000.0)]))
    S.append(loop("mf_dt_tr", [E("heat_consumer", f=1, to=2, mdot=1.0, deltat_k=20.0), E("heat_consumer", f=1, to=2, mdot=0.6, treturn_k=285.0)]))
    S.append(loop("qe_dt", [E("heat_consumer", f=1, to=2, qext_w=20000.0, deltat_k=15.0), E("heat_consumer", f=1, to=2, mdot=0.3, qext_w=3000.0)]))
    S.append(loop("qe_tr", [E("heat_consumer", f=1, to=2, qext_w=20000.0, treturn_k=285.0), E("heat_consumer", f=1, to=2, mdot=0.3, qext_w=3000.0)]))
    S.append(loop("hex", [E("heat_exchanger", f=1, to=2, qext_w=9000.0), E("flow_control", f=1, to=2, mdot=0.4)]))
    S.append(loop("mixed", [E("heat_consumer", f=1, to=2, qext_w=20000.0, treturn_k=285.0), E("heat_consumer", f=1, to=2, mdot=0.8, deltat_k=12.0),
                            E("heat_consumer", f=1, to=2, mdot=0.6, treturn_k=290.0)]))
    S.append(loop("hex_rev", [E("heat_exchanger", f=2, to=1, qext_w=9000.0), E("flow_control", f=1, to=2, mdot=0.4)]))
    S.append({"name": "series_rev", "fluid": "water", "nj": 5, "elems": [
        E("circ_pump_pressure", ret=4, flow=0), E("pipe", f=0, to=1, u=5.0), E("heat_consumer", f=1, to=2, mdot=1.2, qext_w=8000.0),
        E("heat_exchanger", f=3, to=2, qext_w=6000.0), E("pipe", f=4, to=3, u=5.0)]})
    S.append({"name": "series", "fluid": "water", "nj": 5, "elems": [
        E("circ_pump_mass", ret=4, flow=0), E("pipe", f=0, to=1, u=5.0), E("heat_consumer", f=1, to=2, mdot=1.2, qext_w=8000.0),
        E("heat_exchanger", f=2, to=3, qext_w=-3000.0), E("pipe", f=3, to=4, u=5.0)]})
    return S


def _mode(hc, ix):
    has = {k: not is_nan(hc.at[ix, c]) for k, c in (("mf", "controlled_mdot_kg_per_s"), ("qe", "qext_w"), ("dt", "deltat_k"),
                                                      ("tr", "treturn_k"))}
    if has["mf"] and has["dt"]:
        return "MF_DT"
    if has["mf"] and has["tr"]:
        return "MF_TR"
    if has["qe"] and has["mf"]:
        return "QE_MF"
    if has["qe"] and has["dt"]:
        return "QE_DT"
    return "QE_TR"


def _row_noexp0(term):
    return z3.simplify(z3.substitute(z3.simplify(term), (EXP(z3.RealVal(0)), z3.RealVal(1))))


def obligations(st, names, job):
    """all clauses are phrased as *term identities* between what the real code assembled / reported and the
    documented relation; the arithmetic step from `row = 0` to the duty equation is the lemma of lemmas()"""
    net = st.net
    obs = []
    cp = thermal.cp_uf()
    bidir = job["pfmode"] == "bidirectional"
    if st.sys is None:
        return obs
    for tbl in ("heat_consumer", "heat_exchanger"):
        if tbl not in net or not len(net[tbl]):
            continue
        t = net[tbl]
        res = net["res_" + tbl]
        for ix in t.index:
            b = "%s:%s:0" % (tbl, ix)
            if "Tout|" + b not in st.rows:
                continue
            row = _row_noexp0(_t(st.rows["Tout|" + b][0]))
            m, tf, to = res.at[ix, "mdot_from_kg_per_s"], res.at[ix, "t_from_k"], res.at[ix, "t_outlet_k"]
            if is_nan(m) or is_nan(tf):
                continue
            # the temperature drop is taken along the flow: the fluid enters at the to-junction if it runs against the
            # orientation of the branch (the switch threshold is the one of the code, so that the path decides it)
            tf = Sym(z3.If(_t(m) < rat(-2e-11), _t(res.at[ix, "t_to_k"]), _t(tf)))
            cm = (cp(_t(tf)) + cp(_t(to))) / 2
            mabs = thermal.absz(_t(m))
            q = res.at[ix, "qext_w"] if tbl == "heat_consumer" else t.at[ix, "qext_w"]
            mode = _mode(t, ix) if tbl == "heat_consumer" else "HEX"
            law = _t(tf) - _t(to) - _t(q) / (cm * mabs)
            if mode == "QE_TR":
                # the energy balance of this mode sits in the hydraulic row of the consumer, the thermal row
                # pins the return temperature
                hb = "m|" + b
                if hb in st.hyd_rows:
                    obs.append({"label": "heat_consumer %s (QE_TR): hydraulic row = -q + m c_m (T_from - T_out)" % ix,
                                "fp": "C11/duty/heat_consumer/QE_TR/%s" % job["pfmode"],
                                "goal": _t(st.hyd_rows[hb][0]) == -_t(q) + _t(m) * cm * (_t(tf) - _t(to)),
                                "replay": {"kind": "duty"}})
                obs.append({"label": "heat_consumer %s (QE_TR): return temperature = set-point" % ix, "fp": "C11/setpoint/treturn",
                            "goal": _t(to) == _t(t.at[ix, "treturn_k"]), "replay": {"kind": "setpoint"}})
            else:
                obs.append({"label": "%s %s (%s): thermal row = T_from - T_out - q / (c_m |m|)" % (tbl, ix, mode),
                            "fp": "C11/duty/%s/%s/%s" % (tbl, mode, job["pfmode"]), "goal": row == law,
                            "replay": {"kind": "duty"}})
            if tbl == "heat_consumer":
                obs.append({"label": "heat_consumer %s: reported deltat = T_from - T_out" % ix, "fp": "C11/deltat_report",
                            "goal": _t(res.at[ix, "deltat_k"]) == _t(tf) - _t(to), "replay": {"kind": "duty"}})
                if mode in ("MF_DT", "MF_TR", "QE_MF"):
                    obs.append({"label": "heat_consumer %s (%s): mass flow = set-point" % (ix, mode), "fp": "C11/setpoint/mdot",
                                "goal": _t(m) == _t(t.at[ix, "controlled_mdot_kg_per_s"]), "replay": {"kind": "setpoint"}})
                if mode in ("QE_MF", "QE_DT", "QE_TR"):
                    obs.append({"label": "heat_consumer %s (%s): extracted heat = set-point" % (ix, mode), "fp": "C11/setpoint/qext",
                                "goal": _t(q) == _t(t.at[ix, "qext_w"]), "replay": {"kind": "setpoint"}})
                if mode == "MF_DT":
                    # q := c_m m dT_set, so that row = 0 gives T_from - T_out = dT_set
                    obs.append({"label": "heat_consumer %s (MF_DT): q = c_m m deltat_set" % ix, "fp": "C11/setpoint/deltat",
                                "goal": _t(q) == cm * _t(m) * _t(t.at[ix, "deltat_k"]), "replay": {"kind": "setpoint"}})
                if mode == "MF_TR":
                    obs.append({"label": "heat_consumer %s (MF_TR): q = c_m m (T_from - treturn_set)" % ix, "fp": "C11/setpoint/treturn",
                                "goal": _t(q) == cm * _t(m) * (_t(tf) - _t(t.at[ix, "treturn_k"])), "replay": {"kind": "setpoint"}})
                if mode == "QE_DT" and bidir:
                    # bidirectional: the mass flow is recomputed from the current temperatures
                    obs.append({"label": "heat_consumer %s (QE_DT, bidirectional): m = q / (c_m deltat_set)" % ix,
                                "fp": "C11/setpoint/deltat", "goal": _t(m) == _t(q) / (cm * _t(t.at[ix, "deltat_k"])),
                                "replay": {"kind": "setpoint"}})
    for tbl in ("circ_pump_pressure", "circ_pump_mass"):
        if tbl in net and len(net[tbl]):
            res = net["res_" + tbl]
            for ix in net[tbl].index:
                m, tf, to, q = (res.at[ix, c] for c in ("mdot_from_kg_per_s", "t_from_k", "t_outlet_k", "qext_w"))
                if is_nan(m) or is_nan(q):
                    continue
                obs.append({"label": "%s %s: reported heat = m (cp(T_flow) T_flow - cp(T_ret) T_ret)" % (tbl, ix), "fp": "C11/pump_heat",
                            "goal": _t(q) == _t(m) * (cp(_t(to)) * _t(to) - cp(_t(tf)) * _t(tf)), "replay": {"kind": "pump"}})
                obs.append({"label": "%s %s: reported deltat = T_ret - T_flow" % (tbl, ix), "fp": "C11/pump_deltat",
                            "goal": _t(res.at[ix, "deltat_k"]) == _t(tf) - _t(to), "replay": {"kind": "pump"}})
    return obs


def lemma_worker(job):
    """the arithmetic steps used above, once, over fresh reals (nlsat):
       L1  c > 0, m > 0, d - q/(c m) = 0            =>  q = m c d
       L2  c > 0, m > 0, q = c m s, d - q/(c m) = 0  =>  d = s
       L3  loop closure for constant cp: energy balance at every node + mass balance  =>  sum of branch duties = 0"""
    from svx.common import finish_worker
    c, m, d, q, s_ = z3.Reals("c m d q s")
    viol = []
    for lab, hy, goal in (("L1", [c > 0, m > 0, d - q / (c * m) == 0], q == m * c * d),
                          ("L2", [c > 0, m > 0, q == c * m * s_, d - q / (c * m) == 0], d == s_)):
        r, mod, how = D.check(hy, goal, sample="lemma " + lab, timeout_ms=20000)
        if r != 'unsat':
            job.setdefault("_inconclusive", []).append("lemma %s: %s" % (lab, r))
    # L3 on a loop pump -> pipe -> k parallel consumers -> pipe: constant cp, node mixing, mass balance
    for k in (1, 2, 3):
        cpc, mp, Tf, Tr, T1, T2 = z3.Reals("cpc mp Tf Tr T1 T2")
        ms = [z3.Real("mc%d" % i) for i in range(k)]
        To = [z3.Real("To%d" % i) for i in range(k)]
        Tp1, Tp2 = z3.Reals("Tp1 Tp2")         # outlet temperatures of supply / return pipe
        hy = [cpc > 0, mp == sum(ms)] + [x > 0 for x in ms]
        hy += [T1 == Tp1]                                                   # node 1: single inflow (supply pipe)
        hy += [sum(cpc * ms[i] * (To[i] - T2) for i in range(k)) == 0]      # node 2: mix of consumer outlets
        hy += [Tr == Tp2]                                                   # return junction: single inflow
        q_pump = mp * cpc * (Tf - Tr)
        duties = sum(ms[i] * cpc * (T1 - To[i]) for i in range(k)) + mp * cpc * (Tf - Tp1) + mp * cpc * (T2 - Tp2)
        r, mod, how = D.check(hy, q_pump == duties, sample="lemma L3 k=%d" % k, timeout_ms=20000)
        if r == 'sat':
            viol.append({"fingerprint": "C11/lemma/L3", "detail": {"k": k}, "replay": {"kind": "lemma", "values": {}}})
        elif r == 'unknown':
            job.setdefault("_inconclusive", []).append("lemma L3 k=%d" % k)
    return finish_worker(job, H.Exploration(), viol)


def witnesses(names, p0, job):
    return [H.Witness(dict(names))]


def jobs(tier, seed):
    out = []
    sp = specs()
    if tier == "thorough":
        import random
        rng = random.Random(11000 + seed)
        sp += [catalog.random_loop_spec(rng, name="rand_loop%d_s%d" % (i, seed)) for i in range(20)]
    for s in sp:
        for mode in ("sequential", "bidirectional"):
            for numba in (False, True):
                out.append({"name": "%s/%s/%s" % (s["name"], mode, "numba" if numba else "numpy"), "spec": s, "pfmode": mode,
                            "numba": numba})
    out.append({"name": "lemmas", "kind": "lemma"})
    return out


def worker(job):
    if job.get("kind") == "lemma":
        return lemma_worker(job)
    return thermal.thermal_worker(job, obligations, "C11", witnesses_fn=witnesses)


def replay(rs):
    spec = rs["spec"]
    mode = rs.get("pfmode") or "sequential"
    for values in (rs.get("values", {}), {}):
        for numba in (False, True):
            net, _ = nets.build(spec, nets.concrete_valuer(values))
            ok, err = concrete_pipeflow(net, use_numba=numba, mode=mode, tol_p=1e-10, tol_m=1e-10, tol_res=1e-10, tol_T=1e-10,
                                        max_iter_hyd=300, max_iter_therm=300, max_iter_bidirect=300)
            if not ok:
                continue
            fl = net.fluid
            cp = lambda T: float(fl.get_heat_capacity(T))      # noqa
            worst, where = 0.0, None
            if "heat_consumer" in net and len(net.heat_consumer):
                for ix in net.heat_consumer.index:
                    r = net.res_heat_consumer.loc[ix]
                    if np.isnan(r.mdot_from_kg_per_s):
                        continue
                    t_in = r.t_from_k if r.mdot_from_kg_per_s >= 0 else r.t_to_k
                    want = abs(r.mdot_from_kg_per_s) * (cp(t_in) + cp(r.t_outlet_k)) / 2 * (t_in - r.t_outlet_k)
                    g = abs(want - r.qext_w) / (1 + abs(want))
                    if g > worst:
                        worst, where = g, "duty of heat_consumer %s: %r vs reported %r" % (ix, want, r.qext_w)
                    md = _mode(net.heat_consumer, ix)
                    sp = net.heat_consumer.loc[ix]
                    checks = [("reported deltat_k vs t_in - t_outlet", r.deltat_k, t_in - r.t_outlet_k)]
                    if md in ("MF_DT", "MF_TR", "QE_MF"):
                        checks.append(("mdot", r.mdot_from_kg_per_s, sp.controlled_mdot_kg_per_s))
                    if md in ("QE_MF",) or (mode == "bidirectional" and md in ("QE_DT", "QE_TR")):
                        checks.append(("qext", r.qext_w, sp.qext_w))
                    if md == "MF_DT" or (mode == "bidirectional" and md == "QE_DT"):
                        checks.append(("deltat", r.t_from_k - r.t_outlet_k, sp.deltat_k))
                    if md == "MF_TR" or (mode == "bidirectional" and md == "QE_TR"):
                        checks.append(("treturn", r.t_outlet_k, sp.treturn_k))
                    for nm, got, want_ in checks:
                        g = abs(got - want_) / (1 + abs(want_))
                        if g > worst:
                            worst, where = g, "set-point %s of heat_consumer %s (%s): %r vs %r" % (nm, ix, md, got, want_)
            if "heat_exchanger" in net and len(net.heat_exchanger):
                for ix in net.heat_exchanger.index:
                    r = net.res_heat_exchanger.loc[ix]
                    if np.isnan(r.mdot_from_kg_per_s):
                        continue
                    t_in = r.t_from_k if r.mdot_from_kg_per_s >= 0 else r.t_to_k
                    want = abs(r.mdot_from_kg_per_s) * (cp(t_in) + cp(r.t_outlet_k)) / 2 * (t_in - r.t_outlet_k)
                    g = abs(want - net.heat_exchanger.at[ix, "qext_w"]) / (1 + abs(want))
                    if g > worst:
                        worst, where = g, "duty of heat_exchanger %s: %r vs set %r" % (ix, want, net.heat_exchanger.at[ix, "qext_w"])
            if worst > 1e-6:
                return True, {"worst": worst, "where": where, "numba": numba}
    return False, {}


def main(argv=None):
    return runner.run(PROP, "checks.c11", jobs, META, argv)
