"""C14 — options resolve by the documented precedence: call > user options > defaults.

Decided by CrossHair (symbolic execution of the real init_options / set_user_pf_options with z3):
per harness function the postcondition is either confirmed over all paths or refuted with concrete
arguments, which are replayed in plain Python before being reported."""
import ast
import hashlib
import json
import os
import re
import subprocess
import sys
import time

from svx import runner

PROP = "C14"
HERE = os.path.dirname(os.path.dirname(os.path.abspath(__file__)))
HARNESS = os.path.join(HERE, "crosshair", "options_harness.py")

META = {
    "level": "model_checking",
    "functions": ["pf.pipeflow_setup.init_options", "pf.pipeflow_setup._iteration_check", "pf.pipeflow_setup._mode_check",
                  "pf.pipeflow_setup.set_user_pf_options"],
    "files": ["src/pandapipes/pf/pipeflow_setup.py"],
    "stubs": ["get_fluid(net) -> net['fluid'] (the fluid lookup is not the subject)", "logging disabled"],
    "assumptions": ["option values are modelled as symbolic ints / bools (the merge logic is type-agnostic); presence of a key "
                    "in a layer is a symbolic bool", "CrossHair's model of dict / deepcopy semantics"],
    "bound": "all presence/absence combinations of each key in the user and call layers, symbolic values; 16 plain keys by "
             "symbolic index; per-condition timeout 60 s (quick) / 300 s (thorough)",
    "outside": ["option values of exotic types (objects with custom __eq__/__deepcopy__)"],
    "rule": "one condition per harness function; states = paths CrossHair reports are not available, conditions are counted",
}


def run_crosshair(fn_line, timeout):
    cmd = [os.path.join(HERE, ".venv", "bin", "crosshair"), "check", "--report_all", "--per_condition_timeout",
           str(timeout), "%s:%d" % (HARNESS, fn_line)]
    t0 = time.time()
    pr = subprocess.run(cmd, capture_output=True, text=True, timeout=timeout * 3 + 120,
                        env=dict(os.environ, PYTHONPATH=os.path.join(HERE, "crosshair")))
    return pr.stdout + pr.stderr, time.time() - t0


def function_lines():
    src = open(HARNESS).read()
    tree = ast.parse(src)
    out = {}
    for node in tree.body:
        if isinstance(node, ast.FunctionDef) and ast.get_docstring(node) and "post:" in ast.get_docstring(node):
            out[node.name] = node.body[0].lineno if node.body else node.lineno
    return out


def replay(rs):
    sys.path.insert(0, os.path.join(HERE, "crosshair"))
    import importlib
    mod = importlib.import_module("options_harness")
    call = rs["call"]
    try:
        ok = eval(call, dict(mod.__dict__))
        return (not ok), {"call": call, "returned": ok}
    except Exception as e:     # an exception of init_options on valid layers is a violation too
        return True, {"call": call, "raised": repr(e)}


def main(argv=None):
    import argparse
    ap = argparse.ArgumentParser()
    ap.add_argument("--tier", default=os.environ.get("VERIF_TIER", "quick"))
    ap.add_argument("--replay", default=None)
    a, _ = ap.parse_known_args(argv)
    if a.replay:
        violated, detail = replay(json.load(open(a.replay)))
        print(json.dumps({"violated": violated, "detail": detail}))
        if violated:
            print("VIOLATION property=%s replay=%s" % (PROP, a.replay))
            return 1
        return 0
    tier = "thorough" if a.tier == "thorough" else "quick"
    seed = int(os.environ.get("VERIF_SEED", "0") or 0)
    timeout = 60 if tier == "quick" else 300
    t0 = time.time()
    lines = function_lines()
    from concurrent.futures import ThreadPoolExecutor
    with ThreadPoolExecutor(4) as ex:
        futs = {name: ex.submit(run_crosshair, ln, timeout) for name, ln in lines.items()}
        outs = {name: f.result() for name, f in futs.items()}
    confirmed, inconclusive, cands, errors, samples = [], [], [], [], []
    solver_s = 0.0
    for name, (out, dt) in outs.items():
        solver_s += dt
        if "Confirmed over all paths" in out:
            confirmed.append(name)
            samples.append({"condition": name, "verdict": "Confirmed over all paths", "seconds": round(dt, 1)})
            continue
        m = re.search(r"error: (.*?) when calling (\w+\([^()]*\))", out)
        if m:
            cands.append((name, m.group(2), m.group(1)))
            continue
        if "Not confirmed" in out or "Unable to meet precondition" in out:
            inconclusive.append("%s: %s" % (name, "Not confirmed" if "Not confirmed" in out else "Unable to meet precondition"))
        else:
            errors.append("%s: unexpected CrossHair output: %s" % (name, out[-400:]))
    os.makedirs(os.path.join(HERE, "replays"), exist_ok=True)
    viol, unconf = [], []
    for name, call, msg in cands:
        rs = {"call": call, "condition": name, "message": msg}
        violated, detail = replay(rs)
        if violated:
            path = os.path.join(HERE, "replays", "C14_%s.json" % hashlib.sha1(call.encode()).hexdigest()[:10])
            json.dump(rs, open(path, "w"))
            viol.append((name, call, path))
        else:
            unconf.append((name, call))
    wall = time.time() - t0
    cov = {"states": max(1, len(lines)), "transitions": max(1, len(lines)), "traces_validated_against_impl": len(cands),
           "samples": samples[:6] or [{"note": "no condition confirmed"}], "conditions": len(lines),
           "obligations": len(lines), "discharged": len(confirmed), "inconclusive": len(inconclusive),
           "inconclusive_conditions": inconclusive, "solver_seconds": round(solver_s, 1),
           "functions_encoded": META["functions"], "source_sha1": runner.source_shas(META["files"]),
           "bound": META["bound"], "outside_claim": META["outside"], "stubs": META["stubs"],
           "checker_cmd": "crosshair check --report_all --per_condition_timeout %d crosshair/options_harness.py:<line>" % timeout,
           "harness_errors": errors, "unconfirmed_counterexamples": len(unconf), "exhaustive": False,
           "rule": META["rule"]}
    ev = {"property_id": PROP, "tier": tier, "seed": seed, "level": "model_checking", "coverage": cov,
          "assumptions": META["assumptions"], "wall_s": round(wall, 2), "violations": len(viol)}
    os.makedirs(os.path.join(HERE, "evidence"), exist_ok=True)
    json.dump(ev, open(os.path.join(HERE, "evidence", "C14.json"), "w"), indent=1)
    print("C14 tier=%s conditions=%d confirmed=%d inconclusive=%d counterexamples=%d wall=%.1fs" % (
        tier, len(lines), len(confirmed), len(inconclusive), len(cands), wall))
    for name, call, path in viol:
        print("counterexample: %s" % call)
        print("VIOLATION property=%s replay=%s" % (PROP, path))
    if viol:
        return 1
    if errors or unconf:
        for e in errors:
            print("HARNESS-ERROR:", e)
        for n, c in unconf:
            print("UNCONFIRMED counterexample:", c)
        return 2
    for i in inconclusive:
        print("note: inconclusive (not counted as success):", i)
    return 0
