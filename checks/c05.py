"""C05 — a returned result is converged and finite; a failed run leaves no results.

  verdict  finalize_iteration / set_damping_factor executed symbolically on arbitrary error histories,
           residual, tolerances and alpha (NaN-ness of each quantity enumerated): converged  =>  every
           last error <= its tolerance, residual <= tol_res, none NaN, (automatic => alpha == 1); alpha
           bookkeeping and restoration of rejected variables as documented.  All paths (fork mode).
  driver   the real newton_raphson with the per-iteration solve replaced by fresh symbolic iterates /
           residuals: every history of up to max_iter iterations; stage functions raise iff not converged.
  api      the real pipeflow with forced verdict patterns over call sequences on one net object:
           after a failure net.converged is False and no result table holds a number.
  guard    solve_temperature NaN guard / check_infeed_number.
  layout   the real stage functions (solve_hydraulics / solve_temperature / solve_bidirectional) on real nets: the list of
           (new, old) pairs they hand to the driver matches solver_vars / tols / pit_names, and every updated unknown
           is among the pairs compared with a tolerance (the assumption under which the driver part is proved).
"""
import importlib
import itertools

import numpy as np
import z3

from svx import harness as H, nets, catalog, stubs, runner, discharge as D
from svx.sym import Sym, SymBool, _t, ENG, real
from svx.common import finish_worker, is_nan, expected_exc

PROP = "C05"

META = {
    "level": "model_checking",
    "functions": ["pipeflow.finalize_iteration", "pipeflow.set_damping_factor", "pipeflow.newton_raphson",
                  "pipeflow.hydraulics/heat_transfer/bidirectional/pipeflow (exception paths)",
                  "pf.pipeflow_setup.init_all_result_tables", "pipeflow.solve_temperature (NaN guard)",
                  "pf.pipeflow_setup.check_infeed_number"],
    "files": ["src/pandapipes/pipeflow.py", "src/pandapipes/pf/pipeflow_setup.py"],
    "stubs": ["driver part: solve_hydraulics / solve_temperature / solve_bidirectional -> fresh symbolic iterates and "
              "residuals per iteration", "api part: verdict forced per call (finalize_iteration stub)"] + stubs.STUB_LIST,
    "assumptions": ["alpha in (0, 1] on entry, tolerances > 0", "NaN-ness of errors / residual is enumerated structure",
                    "whether Newton *should* converge for a given network is outside"],
    "bound": {"quick": "verdict: 2-4 solver variables x {constant, automatic} x NaN patterns, all paths; driver: max_iter<=3 "
                       "(2 variables) / 2 (3-4 variables), 4 stage kinds; api: all verdict sequences of length <=3 on 3 nets x 4 modes",
              "thorough": "driver max_iter<=4; api sequences of length <=4"},
    "outside": ["convergence behaviour of real networks", "float overflow"],
    "rule": "one obligation per path of the verdict / driver exploration and per call sequence",
}

pf = importlib.import_module("pandapipes.pipeflow")
SOLVER_VARS = {2: ['Tout', 'T'], 3: ['mdot', 'p', 'mdotslack'], 4: ['mdot', 'p', 'TOUT', 'T'],
               5: ['mdot', 'p', 'mdotslack', 'TOUT', 'T']}
PITS = {2: ['branch', 'node'], 3: ['branch', 'node', 'node'], 4: ['branch', 'node', 'branch', 'node'],
        5: ['branch', 'node', 'node', 'branch', 'node']}


def _mini_net(alpha, n=2):
    from pandapower.auxiliary import ADict
    from pandapipes.idx_branch import branch_cols
    from pandapipes.idx_node import node_cols
    net = ADict()
    net["_options"] = {"alpha": alpha}
    net["converged"] = False
    bp = np.empty((n, branch_cols), dtype=object)
    npit = np.empty((n, node_cols), dtype=object)
    for i in range(n):
        for c in range(branch_cols):
            bp[i, c] = real("bp_%d_%d" % (i, c))
        for c in range(node_cols):
            npit[i, c] = real("np_%d_%d" % (i, c))
    net["_active_pit"] = {"branch": bp, "node": npit}
    return net


def verdict_worker(job):
    H.install()
    pf.finalize_iteration = H._ORIG["finalize_iteration"]       # the real one is the subject here
    nv, method, nanpat = job["nvars"], job["method"], job["nan"]
    svars, pits = SOLVER_VARS[nv], PITS[nv]
    n = 2
    A = [z3.Real("alpha") > 0, z3.Real("alpha") <= 1, z3.Real("tol_res") > 0] + [z3.Real("tol_%s" % v) > 0 for v in svars]
    holder = {}

    def q(name, isnan):
        return float("nan") if isnan else real(name)

    def run():
        net = _mini_net(real("alpha"), n)
        errors = {v: [q("e_%s_0" % v, nanpat.get("e0_%s" % v)), q("e_%s_1" % v, nanpat.get("e1_%s" % v))] for v in svars}
        tols = [real("tol_%s" % v) for v in svars]
        vals_old = [np.array([real("old_%s_%d" % (v, i)) for i in range(n)], dtype=object) for v in svars]
        filtered = [None] * nv
        if nv == 3:
            filtered[2] = np.array([0])
            vals_old[2] = vals_old[2][:1]
        before = {k: v.copy() for k, v in net["_active_pit"].items()}
        res = q("res", nanpat.get("res"))
        pf.finalize_iteration(net, 1, res, method, errors=errors, tols=tols, tol_res=real("tol_res"), vals_old=vals_old,
                              solver_vars=svars, pit_names=pits, filtered=filtered)
        conv = net["converged"]
        conv = bool(conv)            # forks on a symbolic verdict
        holder.update(net=net, errors=errors, tols=tols, vals_old=vals_old, before=before, filtered=filtered, res=res)
        return conv
    ex = H.explore(run, A, max_paths=600, feas_timeout_ms=1500)
    viol = []
    n_conv = 0
    for pi, p in enumerate(ex.paths):
        if p.exc is not None:
            return finish_worker(job, ex, viol, errors=["path %d raised %r" % (pi, p.exc)])
    # re-run each path to get at its final state (explore keeps only the return value)
    for pi, p in enumerate(ex.paths):
        ENG.start_run(p.decisions)
        stubs.CTX.reset()
        conv = run()
        net, errors, tols = holder["net"], holder["errors"], holder["tols"]
        hy = list(A) + list(ENG.path)
        alpha0 = z3.Real("alpha")
        a_new = net["_options"]["alpha"]
        obs = []
        if conv:
            n_conv += 1
            for v, t in zip(svars, tols):
                e = errors[v][1]
                obs.append(("converged => error_%s <= tol and not NaN" % v,
                            z3.BoolVal(False) if is_nan(e) else _t(e) <= _t(t)))
            obs.append(("converged => residual <= tol_res and not NaN",
                        z3.BoolVal(False) if is_nan(holder["res"]) else _t(holder["res"]) <= z3.Real("tol_res")))
            if method == "automatic":
                obs.append(("automatic: converged => alpha == 1", _t(a_new) == 1))
        if method == "automatic":
            incs = []
            for v in svars:
                e0, e1 = errors[v]
                incs.append(z3.BoolVal(False) if (is_nan(e0) or is_nan(e1)) else _t(e1) > _t(e0))
            all_inc = z3.And(incs)
            want = z3.If(all_inc, z3.If(alpha0 >= z3.RealVal("1/10"), alpha0 / 10, alpha0),
                         z3.If(alpha0 <= z3.RealVal("1/10"), alpha0 * 10, z3.RealVal(1)))
            obs.append(("alpha bookkeeping", _t(a_new) == want))
            import pandapipes.pipeflow as _pfm   # noqa
            g = vars(pf)
            for inc, v, old, pit, f in zip(incs, svars, holder["vals_old"], PITS[nv], holder["filtered"]):
                col = g[v.upper() + "INIT"]
                cur = net["_active_pit"][pit][:, col] if f is None else net["_active_pit"][pit][f, col]
                bef = holder["before"][pit][:, col] if f is None else holder["before"][pit][f, col]
                for i in range(len(cur)):
                    obs.append(("variable %s[%d] restored iff its error grew" % (v, i),
                                _t(cur[i]) == z3.If(inc, _t(old[i]), _t(bef[i]))))
        else:
            obs.append(("constant: alpha untouched", _t(a_new) == alpha0))
        for lab, goal in obs:
            r, m, how = D.check(hy, goal, sample="%s path %d: %s" % (job["name"], pi, lab), timeout_ms=8000)
            if r == 'sat':
                viol.append({"fingerprint": "C05/verdict/%s" % lab.split(" ")[0].split(":")[0],
                             "detail": {"job": job["name"], "obligation": lab, "path": pi},
                             "replay": {"kind": "verdict", "nvars": nv, "method": method, "nan": nanpat, "label": lab,
                                        "values": {k: v for k, v in (m or {}).items() if isinstance(v, float)}}})
            elif r == 'unknown':
                job.setdefault("_inconclusive", []).append(lab)
    if n_conv == 0 and not any(nanpat.values()):
        return finish_worker(job, ex, viol, errors=["no converged path explored (vacuous)"])
    return finish_worker(job, ex, viol)


def replay_verdict(rs):
    """plain float run of the real finalize_iteration on the counterexample's numbers"""
    from pandapower.auxiliary import ADict
    from pandapipes.idx_branch import branch_cols
    from pandapipes.idx_node import node_cols
    nv, method, nanpat = rs["nvars"], rs["method"], rs["nan"]
    vals = rs.get("values", {})
    svars, pits = SOLVER_VARS[nv], PITS[nv]

    def g(name, default):
        v = vals.get(name)
        return float(v) if v is not None else default
    n = 2
    net = ADict()
    a0 = g("alpha", 1.0)
    net["_options"] = {"alpha": a0}
    net["converged"] = False
    rng = np.random.RandomState(1)
    net["_active_pit"] = {"branch": rng.rand(n, branch_cols), "node": rng.rand(n, node_cols)}
    before = {k: v.copy() for k, v in net["_active_pit"].items()}
    errors = {v: [float("nan") if nanpat.get("e0_%s" % v) else g("e_%s_0" % v, 1.0),
                  float("nan") if nanpat.get("e1_%s" % v) else g("e_%s_1" % v, 0.5)] for v in svars}
    tols = [g("tol_%s" % v, 1e-3) for v in svars]
    vals_old = [np.array([g("old_%s_%d" % (v, i), 7.0 + i) for i in range(n)]) for v in svars]
    filtered = [None] * nv
    if nv == 3:
        filtered[2] = np.array([0])
        vals_old[2] = vals_old[2][:1]
    res = float("nan") if nanpat.get("res") else g("res", 1e-4)
    tol_res = g("tol_res", 1e-3)
    import pandapipes.pipeflow as pfm
    pfm = importlib.import_module("pandapipes.pipeflow")
    pfm.finalize_iteration(net, 1, res, method, errors=errors, tols=tols, tol_res=tol_res, vals_old=vals_old,
                           solver_vars=svars, pit_names=pits, filtered=filtered)
    bad = []
    if net["converged"]:
        for v, t in zip(svars, tols):
            if not (errors[v][1] <= t):
                bad.append("converged with error_%s=%r > tol %r" % (v, errors[v][1], t))
        if not (res <= tol_res):
            bad.append("converged with residual %r > %r" % (res, tol_res))
        if method == "automatic" and net["_options"]["alpha"] != 1:
            bad.append("converged with alpha %r" % net["_options"]["alpha"])
    a1 = net["_options"]["alpha"]
    if method == "automatic":
        incs = [errors[v][1] > errors[v][0] for v in svars]
        want = (a0 / 10 if a0 >= 0.1 else a0) if all(incs) else (a0 * 10 if a0 <= 0.1 else 1.0)
        if abs(a1 - want) > 1e-12:
            bad.append("alpha %r, documented %r" % (a1, want))
        g_ = vars(pfm)
        for inc, v, old, pit, f in zip(incs, svars, vals_old, pits, filtered):
            col = g_[v.upper() + "INIT"]
            cur = net["_active_pit"][pit][:, col] if f is None else net["_active_pit"][pit][f, col]
            bef = before[pit][:, col] if f is None else before[pit][f, col]
            exp = old if inc else bef
            if not np.allclose(cur, exp, rtol=0, atol=0):
                bad.append("variable %s not %s" % (v, "restored" if inc else "kept"))
    elif a1 != a0:
        bad.append("constant method changed alpha")
    return bool(bad), {"bad": bad}


# ---- driver ----------------------------------------------------------------------------------------------------
def driver_worker(job):
    H.install()
    pf.finalize_iteration = H._ORIG["finalize_iteration"]
    nr = H._ORIG["newton_raphson"]
    nv, method, max_iter = job["nvars"], job["method"], job["max_iter"]
    svars, pits = SOLVER_VARS[nv], PITS[nv]
    A = [z3.Real("tol_res") > 0] + [z3.Real("tol_%s" % v) > 0 for v in svars]
    holder = {}

    def run():
        net = _mini_net(1.0, 2)
        net["_options"].update({"max_iter_x": max_iter, "nonlinear_method": method, "tol_res": real("tol_res")})
        net["_internal_results"] = {}
        calls = []

        def funct(net_):
            k = len(calls)
            calls.append(k)
            res = []
            for v in svars:
                new = np.array([real("new_%s_%d_%d" % (v, k, i)) for i in range(2)], dtype=object)
                old = np.array([real("oldv_%s_%d_%d" % (v, k, i)) for i in range(2)], dtype=object)
                res += [new, old]
            filt = [None] * nv
            resid = np.array([real("resid_%d_%d" % (k, i)) for i in range(2)], dtype=object)
            if job.get("resid_nan"):
                # an unsolvable stage signals itself by a NaN residual entry next to ordinary ones (bidirectional:
                # hydraulic residual concatenated with the NaN of the thermal guard)
                resid[1] = np.nan
            return res, resid, filt
        tols = [real("tol_%s" % v) for v in svars]
        nr(net, funct, "hydraulics", svars, tols, pits, "max_iter_x")
        holder.update(net=net, calls=len(calls))
        return bool(net["converged"]), len(calls)
    ex = H.explore(run, A, max_paths=job.get("max_paths", 800), feas_timeout_ms=1000)
    viol, errs = [], []
    for pi, p in enumerate(ex.paths):
        if p.exc is not None:
            errs.append("path %d raised %r" % (pi, p.exc))
            continue
        conv, ncalls = p.value
        hy = list(A) + list(p.path)
        obs = [("iteration budget respected", z3.BoolVal(1 <= ncalls <= max_iter))]
        if conv:
            k = ncalls - 1
            for v in svars:
                dv = [z3.If(_t(real("new_%s_%d_%d" % (v, k, i))) - _t(real("oldv_%s_%d_%d" % (v, k, i))) >= 0,
                            _t(real("new_%s_%d_%d" % (v, k, i))) - _t(real("oldv_%s_%d_%d" % (v, k, i))),
                            _t(real("oldv_%s_%d_%d" % (v, k, i))) - _t(real("new_%s_%d_%d" % (v, k, i)))) for i in range(2)]
                obs.append(("converged => last change of %s within tolerance" % v,
                            z3.And([d <= z3.Real("tol_%s" % v) for d in dv])))
            rs_ = [z3.If(z3.Real("resid_%d_%d" % (k, i)) >= 0, z3.Real("resid_%d_%d" % (k, i)), -z3.Real("resid_%d_%d" % (k, i)))
                   for i in range(1 if job.get("resid_nan") else 2)]
            obs.append(("converged => last residual within tolerance", z3.And([r <= z3.Real("tol_res") for r in rs_])))
            if job.get("resid_nan"):
                obs.append(("converged => no NaN in the last residual", z3.BoolVal(False)))
        else:
            obs.append(("not converged => budget used up", z3.BoolVal(ncalls == max_iter)))
        for lab, goal in obs:
            r, m, how = D.check(hy, goal, sample="%s path %d: %s" % (job["name"], pi, lab), timeout_ms=8000)
            if r == 'sat':
                viol.append({"fingerprint": "C05/driver/%s" % lab.split(" ")[0], "detail": {"job": job["name"], "obligation": lab},
                             "replay": {"kind": "driver", "nvars": nv, "method": method, "max_iter": max_iter, "label": lab,
                                        "resid_nan": bool(job.get("resid_nan")),
                                        "values": {k_: v_ for k_, v_ in (m or {}).items() if isinstance(v_, float)}}})
            elif r == 'unknown':
                job.setdefault("_inconclusive", []).append(lab)
    return finish_worker(job, ex, viol, errors=errs)


def replay_driver(rs):
    from pandapower.auxiliary import ADict
    from pandapipes.idx_branch import branch_cols
    from pandapipes.idx_node import node_cols
    pfm = importlib.import_module("pandapipes.pipeflow")
    nv, method, max_iter = rs["nvars"], rs["method"], rs["max_iter"]
    svars, pits = SOLVER_VARS[nv], PITS[nv]
    vals = rs.get("values", {})
    g = lambda n, d: float(vals[n]) if vals.get(n) is not None else d     # noqa
    net = ADict()
    net["_options"] = {"alpha": 1.0, "max_iter_x": max_iter, "nonlinear_method": method, "tol_res": g("tol_res", 1e-3)}
    net["converged"] = False
    net["_internal_results"] = {}
    net["_active_pit"] = {"branch": np.zeros((2, branch_cols)), "node": np.zeros((2, node_cols))}
    calls = []

    def funct(net_):
        k = len(calls)
        calls.append(k)
        res = []
        for v in svars:
            res += [np.array([g("new_%s_%d_%d" % (v, k, i), 1.0) for i in range(2)]),
                    np.array([g("oldv_%s_%d_%d" % (v, k, i), 1.0) for i in range(2)])]
        resid = np.array([g("resid_%d_%d" % (k, i), 0.0) for i in range(2)])
        if rs.get("resid_nan"):
            resid[1] = np.nan
        return res, resid, [None] * nv
    tols = [g("tol_%s" % v, 1e-3) for v in svars]
    pfm.newton_raphson(net, funct, "hydraulics", svars, tols, pits, "max_iter_x")
    bad = []
    k = len(calls) - 1
    if not (1 <= len(calls) <= max_iter):
        bad.append("%d solves with budget %d" % (len(calls), max_iter))
    if net["converged"]:
        for v, t in zip(svars, tols):
            d = max(abs(g("new_%s_%d_%d" % (v, k, i), 1.0) - g("oldv_%s_%d_%d" % (v, k, i), 1.0)) for i in range(2))
            if not d <= t:
                bad.append("converged with change %r > tol %r in %s" % (d, t, v))
        r = max(abs(g("resid_%d_%d" % (k, i), 0.0)) for i in range(2))
        if not r <= net["_options"]["tol_res"]:
            bad.append("converged with residual %r" % r)
        if rs.get("resid_nan"):
            bad.append("converged although the last residual holds a NaN")
    elif len(calls) != max_iter:
        bad.append("gave up after %d of %d iterations" % (len(calls), max_iter))
    return bool(bad), {"bad": bad}


# ---- api: call sequences with forced verdicts --------------------------------------------------------------------------
def api_worker(job):
    import pandapipes as pp
    from pandapipes.pf.pipeflow_setup import PipeflowNotConverged
    spec, seq, mode = job["spec"], job["seq"], job["pfmode"]
    patched, ass = H.install()
    is_gas = spec["fluid"] != "water"
    viol, log = [], []

    def bad(what):
        viol.append({"fingerprint": "C05/api", "detail": {"job": job["name"], "what": what},
                     "replay": {"kind": "api", "spec": spec, "seq": seq, "pfmode": mode, "values": {}}})

    def run():
        net, names = nets.build(spec, nets.sym_valuer(), fluid=stubs.make_sym_fluid(is_gas))
        out = []
        for ok in seq:
            # True: verdict converged; False: verdict not converged; "C": supply cut, the run fails in the connectivity
            # stage before any Newton loop
            H.CTX.force_fail = ok is False or ok == "DF"
            if ok == "DF":
                _drop_all_of_one_type(net)      # every element of one component type is deleted, then the run fails
            cut = _cut_supply(net) if ok == "C" else None
            raised = None
            try:
                pp.pipeflow(net, mode=mode, use_numba=False)
            except PipeflowNotConverged as e:
                raised = e
            finally:
                H.CTX.force_fail = False
                _restore_supply(net, cut)
            numbers = 0
            for key in net.keys():
                if isinstance(key, str) and key.startswith("res_") and hasattr(net[key], "columns"):
                    for col in net[key].columns:
                        numbers += sum(1 for v in net[key][col].values if not is_nan(v))
            out.append((ok, raised is not None, bool(net.converged), numbers))
        return out
    _, names = nets.build(spec, nets.sym_valuer())
    H.CTX.fixed = set()
    ex = H.explore_witnesses(run, [H.Witness(dict(names))], list(ass))
    p = ex.paths[0]
    if p.exc is not None:
        return finish_worker(job, ex, [], errors=["raised %r" % (p.exc,)])
    n_ev = 0
    for i, (ok, raised, conv, numbers) in enumerate(p.value):
        n_ev += 3
        if ok is True:
            if raised or not conv or numbers == 0:
                bad("call %d (verdict converged): raised=%s converged=%s numbers=%d" % (i, raised, conv, numbers))
        else:
            if not raised:
                bad("call %d (verdict not converged) returned normally" % i)
            if conv:
                bad("call %d failed but net.converged is True" % i)
            if numbers:
                bad("call %d failed but %d result cells hold a number" % (i, numbers))
    D.STATS.obligations += n_ev
    D.STATS.rewriter += n_ev - len(viol)
    return finish_worker(job, ex, viol, evaluated=n_ev)


FEEDERS = ("ext_grid", "circ_pump_pressure", "circ_pump_mass")


def _drop_all_of_one_type(net):
    for t in ("source", "mass_storage", "sink", "heat_consumer"):
        if t in net and len(net[t]):
            net[t] = net[t].iloc[0:0]
            return t
    return None


def _cut_supply(net):
    saved = {}
    for t in FEEDERS:
        if t in net and len(net[t]):
            saved[t] = net[t]["in_service"].copy()
            net[t]["in_service"] = False
    return saved


def _restore_supply(net, saved):
    for t, col in (saved or {}).items():
        net[t]["in_service"] = col


def replay_api(rs):
    """real code: failure is provoked with an iteration budget of 1 and unreachable tolerances"""
    from svx.common import concrete_pipeflow
    net, _ = nets.build(rs["spec"], nets.concrete_valuer({}))
    badl = []
    for i, ok in enumerate(rs["seq"]):
        kw = dict(mode=rs["pfmode"], use_numba=False)
        cut = _cut_supply(net) if ok == "C" else None
        if ok == "DF":
            _drop_all_of_one_type(net)
        if ok is False or ok == "DF":
            kw.update(max_iter_hyd=1, max_iter_therm=1, max_iter_bidirect=1, tol_p=1e-15, tol_m=1e-15, tol_T=1e-15, tol_res=1e-15)
        else:
            kw.update(max_iter_hyd=100, max_iter_therm=100, max_iter_bidirect=100)
        good, err = concrete_pipeflow(net, **kw)
        _restore_supply(net, cut)
        numbers = 0
        for key in net.keys():
            if isinstance(key, str) and key.startswith("res_") and hasattr(net[key], "columns"):
                numbers += int(np.sum(~np.isnan(net[key].values.astype(float))))
        if ok == "C" and good:
            badl.append("call %d without any supply returned normally" % i)
        if not good:
            if net.converged:
                badl.append("call %d failed, net.converged True" % i)
            if numbers:
                badl.append("call %d failed, %d result cells hold numbers" % (i, numbers))
        elif not net.converged or numbers == 0:
            badl.append("call %d returned but converged=%s numbers=%d" % (i, net.converged, numbers))
    return bool(badl), {"bad": badl}


# ---- guards -----------------------------------------------------------------------------------------------------------
def guard_worker(job):
    from pandapipes.pf.pipeflow_setup import check_infeed_number
    from pandapipes.idx_node import node_cols, INFEED, NODE_TYPE_T, T
    H.install()
    viol = []
    n_ev = 0
    for n in (1, 2, 3):
        for infeed in itertools.product([0, 1], repeat=n):
            for slack in itertools.product([0, 1], repeat=n):
                npit = np.zeros((n, node_cols))
                npit[:, INFEED] = infeed
                npit[:, NODE_TYPE_T] = [T if s else 0 for s in slack]
                n_ev += 1
                got = bool(check_infeed_number(npit))
                # documented special case: if every node is a fixed-temperature node they all count as infeeds
                want = True if sum(slack) == n else sum(infeed) == sum(slack)
                if got != want:
                    viol.append({"fingerprint": "C05/guard/infeed_number", "detail": {"infeed": infeed, "slack": slack},
                                 "replay": {"kind": "guard", "infeed": list(infeed), "slack": list(slack), "values": {}}})
    D.STATS.obligations += n_ev
    D.STATS.rewriter += n_ev - len(viol)
    ex = H.Exploration()
    return finish_worker(job, ex, viol, evaluated=n_ev)


def replay_guard(rs):
    from pandapipes.pf.pipeflow_setup import check_infeed_number
    from pandapipes.idx_node import node_cols, INFEED, NODE_TYPE_T, T
    n = len(rs["infeed"])
    npit = np.zeros((n, node_cols))
    npit[:, INFEED] = rs["infeed"]
    npit[:, NODE_TYPE_T] = [T if s else 0 for s in rs["slack"]]
    got = bool(check_infeed_number(npit))
    want = True if sum(rs["slack"]) == n else sum(rs["infeed"]) == sum(rs["slack"])
    return got != want, {"got": got}


# ---- layout: what the stage functions hand to the driver ---------------------------------------------------------
TOL_KIND = {"mdot": "tol_m", "p": "tol_p", "mdotslack": "tol_m", "tout": "tol_T", "t": "tol_T"}


def layout_worker(job):
    """The driver proof above assumes that the stage function returns one (new, old) pair per solver variable, in the
    order of solver_vars / tols / pit_names.  Here the *real* stage functions run symbolically on a real net and that
    contract is discharged: (a) as many pairs as solver variables (the driver silently ignores surplus pairs), (b) pair i
    is the pit column that finalize_iteration restores for variable i, (c) tolerance i is the option of that variable's
    kind, (d) every unknown updated by the linear solves of the call occurs in a checked pair."""
    import pandapipes as pp
    from svx.sym import free_vars
    spec, mode = job["spec"], job["pfmode"]
    patched, ass = H.install()
    is_gas = spec["fluid"] != "water"
    calls = []
    nrw = pf.newton_raphson

    def rec_nr(net, funct, md, solver_vars, tols, pit_names, iter_name):
        entry = {"mode": md, "solver_vars": list(solver_vars), "tols": list(tols), "pit_names": list(pit_names), "results": None,
                 "n0": len(stubs.CTX.systems)}

        def f2(net_):
            res, residual, filt = funct(net_)
            cols = []
            for var, pit, f in zip(solver_vars, pit_names, filt):
                col = vars(pf).get(var.upper() + "INIT")
                if col is None:
                    cols.append(None)
                    continue
                arr = net_["_active_pit"][pit][:, col] if f is None else net_["_active_pit"][pit][f, col]
                cols.append(np.array(arr, dtype=object))
            entry.update(results=[np.array(r, dtype=object) for r in res], cols=cols, n1=len(stubs.CTX.systems))
            return res, residual, filt
        calls.append(entry)
        return nrw(net, f2, md, solver_vars, tols, pit_names, iter_name)

    def run():
        calls.clear()
        net, names = nets.build(spec, nets.sym_valuer(), fluid=stubs.make_sym_fluid(is_gas))
        pf.newton_raphson = rec_nr
        try:
            pp.pipeflow(net, mode=mode, use_numba=False, tol_p=real("tol_p"), tol_m=real("tol_m"), tol_T=real("tol_T"),
                        tol_res=real("tol_res"))
        finally:
            pf.newton_raphson = nrw
        return list(calls), list(stubs.CTX.systems)
    _, names = nets.build(spec, nets.sym_valuer())
    A = list(ass) + nets.admissibility(names) + [z3.Real(t) > 0 for t in ("tol_p", "tol_m", "tol_T", "tol_res")]
    H.CTX.fixed = set()
    ex = H.explore_witnesses(run, [H.Witness(dict(names, tol_p=1e-4, tol_m=1e-4, tol_T=1e-2, tol_res=1e-3))], A)
    p = ex.paths[0]
    if p.exc is not None:
        return finish_worker(job, ex, [], errors=[] if expected_exc(p.exc) else ["raised %r" % (p.exc,)])
    viol = []
    hy = list(A) + p.facts + p.path + p.defined + p.assumed

    def bad(what, fp):
        viol.append({"fingerprint": "C05/layout/" + fp, "detail": {"job": job["name"], "what": what},
                     "replay": {"kind": "layout", "spec": spec, "pfmode": mode, "values": {}}})

    def eq(lab, a, b, fp):
        r, m, how = D.check(hy, _t(a) == _t(b), sample="%s %s" % (job["name"], lab), timeout_ms=4000,
                            witness=(p.witness, H.witness_funcs()))
        if r == 'sat':
            bad(lab, fp)
        elif r == 'unknown':
            job.setdefault("_inconclusive", []).append(lab)
    cl, systems = p.value
    for ci, c in enumerate(cl):
        if c["results"] is None:
            continue
        sv, res = c["solver_vars"], c["results"]
        tag = "%s call %d" % (c["mode"], ci)
        D.STATS.obligations += 1
        if len(res) == 2 * len(sv):
            D.STATS.rewriter += 1
        else:
            bad("%s: stage function returns %d (new, old) pairs, the driver checks %d solver variables %s" %
                (tag, len(res) // 2, len(sv), sv), "pairs")
        for i, var in enumerate(sv):
            col = c["cols"][i] if i < len(c["cols"]) else None
            D.STATS.obligations += 1
            if col is None or 2 * i >= len(res) or len(col) != len(res[2 * i]):
                bad("%s: pair %d handed to the driver as %r is not the pit column %sINIT (%s vs %s entries)" %
                    (tag, i, var, var.upper(), "-" if col is None else len(col), len(res[2 * i]) if 2 * i < len(res) else "-"),
                    "column")
            else:
                D.STATS.rewriter += 1
                for k in range(len(col)):
                    eq("%s: pair %d (%s) entry %d is the pit column %sINIT" % (tag, i, var, k, var.upper()), res[2 * i][k], col[k],
                       "column")
            want = TOL_KIND.get(var.lower())
            if want is None:
                bad("%s: unknown solver variable %r" % (tag, var), "tolerance")
            else:
                eq("%s: tolerance of %s is %s" % (tag, var, want), c["tols"][i], real(want), "tolerance")
        # (d) every update unknown of the call occurs in a checked pair
        checked = set()
        for i in range(min(len(sv), len(res) // 2)):
            for a, b in zip(res[2 * i], res[2 * i + 1]):
                if isinstance(a, Sym) or isinstance(b, Sym):
                    checked |= set(free_vars(z3.simplify(_t(a) - _t(b))))
        for s_ in systems[c["n0"]:c.get("n1", c["n0"])]:
            for xn in s_.get("xnames", []):
                D.STATS.obligations += 1
                if xn in checked:
                    D.STATS.rewriter += 1
                else:
                    bad("%s: the change of unknown %s is not among the pairs the driver compares with a tolerance" % (tag, xn),
                        "coverage")
    return finish_worker(job, ex, viol)


def replay_layout(rs):
    """real code, instrumented stage functions: a run that returns normally although the last change of some unknown
    exceeds the tolerance of its kind (tolerance grid; the kinds follow the documented return order of the stage functions:
    hydraulics [mdot, p, mdotslack], thermal [Tout, T])"""
    import pandapipes as pp
    spec, mode = rs["spec"], rs["pfmode"]
    hist = []
    names = {"hydraulics": "solve_hydraulics", "heat": "solve_temperature", "bidirectional": "solve_bidirectional"}
    kinds = {"solve_hydraulics": ["tol_m", "tol_p", "tol_m"], "solve_temperature": ["tol_T", "tol_T"],
             "solve_bidirectional": ["tol_m", "tol_p", "tol_m", "tol_T", "tol_T"]}
    saved = {n: getattr(pf, n) for n in kinds}

    def wrap(n):
        orig = saved[n]

        def w(net):
            res, residual, filt = orig(net)
            ch = []
            for i in range(len(res) // 2):
                a, b = np.asarray(res[2 * i], dtype=float), np.asarray(res[2 * i + 1], dtype=float)
                ch.append(float(np.max(np.abs(a - b))) if len(a) else 0.0)
            hist.append((n, ch))
            return res, residual, filt
        return w
    found = None
    try:
        for n in (["solve_bidirectional"] if mode == "bidirectional" else ["solve_hydraulics", "solve_temperature"]):
            setattr(pf, n, wrap(n))
        for method in ("constant", "automatic"):
            for tol_T in (1e-2, 1e-5, 1e-8, 1e-10):
                for tol_m in (1e-4, 1e-8, 1e-11):
                    net, _ = nets.build(spec, nets.concrete_valuer(rs.get("values", {})))
                    hist.clear()
                    tols = {"tol_T": tol_T, "tol_m": tol_m, "tol_p": 1e-4}
                    try:
                        pp.pipeflow(net, mode=mode, use_numba=False, nonlinear_method=method, tol_res=1e9, max_iter_hyd=100,
                                    max_iter_therm=100, max_iter_bidirect=100, **tols)
                    except Exception:   # noqa
                        continue
                    last = {}
                    for n, ch in hist:
                        last[n] = ch
                    for n, ch in last.items():
                        for k, c in zip(kinds[n], ch):
                            if c > tols[k] and found is None:
                                found = {"method": method, "tolerances": tols, "stage": n, "last changes": ch,
                                         "kinds": kinds[n]}
    finally:
        for n, f in saved.items():
            setattr(pf, n, f)
    return found is not None, found or {"no run found": True}


def jobs(tier, seed):
    out = []
    for nv in (2, 3, 5):
        svars = SOLVER_VARS[nv]
        for method in ("constant", "automatic"):
            pats = [{}] + [{"res": True}] + [{"e1_%s" % svars[0]: True}] + [{"e0_%s" % svars[-1]: True}]
            if tier == "thorough":
                pats += [{"e1_%s" % v: True} for v in svars[1:]] + [{"e0_%s" % v: True, "res": True} for v in svars[:1]]
            for pi, pat in enumerate(pats):
                if nv == 5 and method == "automatic" and pi > 1 and tier == "quick":
                    continue
                out.append({"name": "verdict/%dvars/%s/nan%d" % (nv, method, pi), "kind": "verdict", "nvars": nv, "method": method,
                            "nan": pat})
    for nv, mi in ((2, 3), (3, 2), (5, 2)) if tier == "quick" else ((2, 4), (3, 3), (5, 2)):
        for method in ("constant", "automatic"):
            if nv >= 3 and method == "automatic" and tier == "quick":
                mi_ = 1 if nv == 5 else 2
            else:
                mi_ = mi
            out.append({"name": "driver/%dvars/%s/max_iter%d" % (nv, method, mi_), "kind": "driver", "nvars": nv, "method": method,
                        "max_iter": mi_})
            out.append({"name": "driver/%dvars/%s/max_iter%d/nan_residual" % (nv, method, min(mi_, 2)), "kind": "driver", "nvars": nv,
                        "method": method, "max_iter": min(mi_, 2), "resid_nan": True})
    L = 3 if tier == "quick" else 4
    for s, modes in ((catalog.w_line3(), ["hydraulics"]), (catalog.w_circ_loop(), ["sequential", "bidirectional", "hydraulics"]),
                     (catalog.g_line3(), ["hydraulics"])):
        for mode in modes:
            for l_ in range(1, L + 1):
                for seq in itertools.product([True, False], repeat=l_):
                    if all(seq):
                        continue
                    out.append({"name": "api/%s/%s/%s" % (s["name"], mode, "".join("S" if x else "F" for x in seq)), "kind": "api",
                                "spec": s, "pfmode": mode, "seq": list(seq)})
            for seq in ([True, "C"], [True, "C", True], ["C", True], [False, "C"], [True, False, "C"], [True, "DF"], [True, "DF", True]):
                out.append({"name": "api/%s/%s/%s" % (s["name"], mode, "".join(x if isinstance(x, str) else "S" if x else "F" for x in seq)),
                            "kind": "api", "spec": s, "pfmode": mode, "seq": list(seq)})
    out.append({"name": "guard/infeed", "kind": "guard"})
    from checks.c11 import specs as c11_specs
    lay = [(catalog.w_line3(), ["hydraulics"]), (catalog.g_line3(), ["hydraulics"]),
           (catalog.w_circ_loop(), ["sequential", "bidirectional"]), (catalog.w_circ_mass(), ["sequential", "bidirectional"])]
    lay += [(s_, ["bidirectional"]) for s_ in c11_specs() if s_["name"] in ("mf_dt_tr", "mixed")]
    for s_, modes in lay:
        for mode in modes:
            out.append({"name": "layout/%s/%s" % (s_["name"], mode), "kind": "layout", "spec": s_, "pfmode": mode})
    return out


def worker(job):
    return {"verdict": verdict_worker, "driver": driver_worker, "api": api_worker, "guard": guard_worker,
            "layout": layout_worker}[job["kind"]](job)


def replay(rs):
    return {"verdict": replay_verdict, "driver": replay_driver, "api": replay_api, "guard": replay_guard,
            "layout": replay_layout}[rs["kind"]](rs)


def main(argv=None):
    return runner.run(PROP, "checks.c05", jobs, META, argv)
