"""C02 — every flowing branch obeys the documented pressure-loss law.

The real hydraulic code is executed symbolically at an arbitrary state; per pipe section, valve and heat
exchanger the residual row the real code assembled is proved equal (as a term over all inputs) to the documented
momentum equation, for liquids (hydrostatic + Darcy-Weisbach + lumped loss) and gases (integrated real-gas form with
compressibility at the mean pressure), for the friction models nikuradse, swamee-jain and colebrook; the reported
friction factor, Reynolds number, velocity and gas norm factors are proved to be the ones that follow from the
reported flow, pressures and temperatures."""
import numpy as np
import z3

from svx import harness as H, nets, catalog, stubs, runner, discharge as D, thermal
from svx.catalog import E
from svx.sym import Sym, _t, LOG10, POW, SQRT
from svx.common import concrete_pipeflow, is_nan

PROP = "C02"

META = {
    "level": "model_checking",
    "functions": ["derivative_calculation.calculate_derivatives_hydraulic/calc_lambda/colebrook_white (real closure)",
                  "derivative_toolbox.calc_derived_values_np/calc_medium_pressure_with_derivative_np/calc_lambda_nikuradse_*_np/"
                  "derivatives_hydraulic_{incomp,comp}_np (+ numba py_func twins)",
                  "properties_toolbox.get_branch_real_density/get_branch_real_eta", "component_toolbox.p_correction_height_air (cut)",
                  "Pipe/Valve/HeatExchanger.create_pit_branch_entries", "result_extraction.get_basic_branch_results/"
                  "get_branch_results_gas(_numba)/extract_branch_results_*"],
    "files": ["src/pandapipes/pf/derivative_toolbox.py", "src/pandapipes/pf/derivative_toolbox_numba.py",
              "src/pandapipes/pf/derivative_calculation.py", "src/pandapipes/properties/properties_toolbox.py",
              "src/pandapipes/pf/result_extraction.py", "src/pandapipes/component_models/pipe_component.py",
              "src/pandapipes/component_models/valve_component.py"],
    "stubs": stubs.STUB_LIST + ["scipy.optimize.newton -> a root of the real colebrook_white_implicit closure (executed symbolically)"],
    "assumptions": ["rows are compared as terms at an arbitrary state: a state solves the real system iff it solves the documented "
                    "one (finite tolerance outside)", "log10 / sqrt / pow uninterpreted (the oracle is written with the same "
                    "operations as the documentation)", "density, viscosity, compressibility arbitrary (positive) property functions",
                    "the documented Swamee-Jain constant 0.25 is taken as written"],
    "bound": {"quick": "pipe (S in {1,2}), valve, heat exchanger between junctions of symbolic height; water and gas; 3 friction "
                       "models; numpy and numba py_func; forward / reverse / zero flow witnesses",
              "thorough": "+ S=3 and a 3-junction net per fluid"},
    "outside": ["the inner Colebrook iteration (only its fixed point)", "finite tolerance"],
    "rule": "one obligation per section row, per friction-factor / Reynolds identity and per reported quantity",
}


def specs():
    S = []
    for fluid in ("water", "gas"):
        S.append({"name": "%s_pipe1" % fluid, "fluid": fluid, "nj": 2, "jh": [0, 7], "elems": [
            E("ext_grid", j=0), E("pipe", f=0, to=1, sections=1, zeta=0.4), E("sink", j=1)]})
        S.append({"name": "%s_mix" % fluid, "fluid": fluid, "nj": 4, "jh": [0, 7, 3, 1], "elems": [
            E("ext_grid", j=0), E("pipe", f=0, to=1, sections=2, zeta=0.3), E("valve", j=1, el=2, et="ju", zeta=0.8),
            E("heat_exchanger", f=2, to=3, zeta=0.5) if fluid == "water" else E("pipe", f=2, to=3),
            E("sink", j=3), E("sink", j=2)]})
        # pipes with different numbers of sections, pipe labels not ascending in table order
        S.append({"name": "%s_sections" % fluid, "fluid": fluid, "nj": 4, "jh": [0, 4, 2, 5], "elems": [
            E("ext_grid", j=0), E("pipe", f=0, to=1, sections=3, index=2), E("pipe", f=1, to=2, sections=1, index=0, zeta=0.2),
            E("pipe", f=3, to=2, sections=2, index=1), E("sink", j=3), E("sink", j=1)]})
    return S


def absz(t):
    return z3.If(t >= 0, t, -t)


def _node_height(net, name):
    """height of a pit node from the *input tables*: junction height, or the linear interpolation between the end
    junctions for the k-th internal node of a pipe (independent of what the pit holds)"""
    kind, ix, k = name.split(":")
    if kind == "junction":
        return _t(net.junction.at[int(ix), "height_m"])
    if kind == "pipe_nodes":
        ix, k = int(ix), int(k)
        S = int(net.pipe.at[ix, "sections"])
        hf = _t(net.junction.at[int(net.pipe.at[ix, "from_junction"]), "height_m"])
        ht = _t(net.junction.at[int(net.pipe.at[ix, "to_junction"]), "height_m"])
        return hf + (ht - hf) * z3.RealVal(k + 1) / z3.RealVal(S)
    return None


def _pamb_of(h):
    from svx.sym import Sym as _S
    return _t(stubs.sym_p_correction_height_air(_S(z3.simplify(h))))


def obligations(st, names, job):
    net = st.net
    obs = []
    is_gas = net.fluid.is_gas
    fr = job["friction"]
    pi_, g, pc, pn, tn = (z3.Real(x) for x in ("pi", "g", "Pconv", "p_n", "T_n"))
    rho_f = z3.Function("rho", z3.RealSort(), z3.RealSort())
    eta_f = z3.Function("eta", z3.RealSort(), z3.RealSort())
    ks, ko = z3.Real("K_slope"), z3.Real("K_offset")
    from pandapipes.idx_branch import LAMBDA, RE, LENGTH, D as DCOL, AREA, K as KCOL, LOSS_COEFFICIENT as LC, PL
    hyd = st.hyd_rows
    for b in st.bn:
        tbl, ix, k = b.split(":")
        if tbl not in ("pipe", "valve", "heat_exchanger") or ("m|" + b) not in hyd:
            continue
        i = st.brow[b]
        bp = st.bpit
        row = _t(hyd["m|" + b][0])
        fn_, tn_ = st.fn[b], st.tn[b]
        hf_, ht_ = _node_height(net, fn_), _node_height(net, tn_)
        if hf_ is None or ht_ is None:
            hf_, ht_ = _t(st.HGT[fn_]), _t(st.HGT[tn_])
            pf = _t(st.P[fn_]) + _t(st.PAMB[fn_])
            pt = _t(st.P[tn_]) + _t(st.PAMB[tn_])
        else:
            # heights and barometric pressures of the section ends from the input tables (not from the pit)
            obs.append({"label": "%s: node heights of the pit = junction heights / linear interpolation along the pipe" % b,
                        "fp": "C02/heights", "goal": z3.And(_t(st.HGT[fn_]) == hf_, _t(st.HGT[tn_]) == ht_)})
            pf = _t(st.P[fn_]) + _pamb_of(hf_)
            pt = _t(st.P[tn_]) + _pamb_of(ht_)
        dh = hf_ - ht_
        m = _t(st.m[b])
        tfrom, tout = _t(st.T[fn_]), _t(st.Tout[b])
        # geometry from the input tables
        ixi = int(ix)
        if tbl == "pipe":
            S = int(net.pipe.at[ixi, "sections"])
            L = _t(net.pipe.at[ixi, "length_km"]) * 1000 / S
            d = _t(net.pipe.at[ixi, "inner_diameter_mm"]) / 1000
            kk = _t(net.pipe.at[ixi, "k_mm"]) / 1000
            zeta = _t(net.pipe.at[ixi, "loss_coefficient"]) / S
        else:
            L = z3.RealVal(0)
            d = _t(net[tbl].at[ixi, "inner_diameter_mm"]) / 1000
            kk = _t(bp[i, KCOL])
            zeta = _t(net[tbl].at[ixi, "loss_coefficient"])
        area = d * d * pi_ / 4
        lam, re = _t(bp[i, LAMBDA]), _t(bp[i, RE])
        tm = (tfrom + tout) / 2
        if is_gas:
            def K(p):
                return ko + ks * p
            rho = (rho_f(tn) * tn * pf / (tfrom * pn * K(pf)) + rho_f(tn) * tn * pt / (tout * pn * K(pt))) / 2
        else:
            rho = (rho_f(tfrom) + rho_f(tout)) / 2
        # --- Reynolds number and friction factor
        pm_like = None
        eta = eta_f(tm)
        flowing = _flowing(st, b)
        obs.append({"label": "%s: Re = |m| d / (eta A)" % b, "fp": "C02/reynolds", "goal": re == absz(m) * d / (eta * area)})
        if flowing:
            if fr == "nikuradse":
                if is_gas:
                    lam_doc = 64 / re + 1 / ((2 * LOG10(d / kk) + z3.RealVal("114/100")) * (2 * LOG10(d / kk) + z3.RealVal("114/100")))
                else:
                    t_ = -2 * LOG10(kk / (z3.RealVal("371/100") * d))
                    lam_doc = 64 / re + 1 / (t_ * t_)
                obs.append({"label": "%s: lambda = 64/Re + Nikuradse term" % b, "fp": "C02/lambda/nikuradse", "goal": lam == lam_doc})
            elif fr == "swamee-jain":
                t_ = LOG10(kk / (z3.RealVal("37/10") * d) + z3.RealVal("574/100") / POW(re, z3.RealVal("9/10")))
                obs.append({"label": "%s: lambda = 0.25 / log10(k/(3.7 d) + 5.74/Re^0.9)^2" % b, "fp": "C02/lambda/swamee-jain",
                            "goal": lam == z3.RealVal("1/4") / (t_ * t_)})
            elif fr == "colebrook" and tbl == "pipe":
                impl = POW(lam, z3.RealVal("-1/2")) + 2 * LOG10(z3.RealVal("251/100") / (re * SQRT(lam)) + kk / (z3.RealVal("371/100") * d))
                obs.append({"label": "%s: lambda solves the Colebrook-White equation" % b, "fp": "C02/lambda/colebrook",
                            "goal": impl == 0, "use_facts": True})
        # --- the momentum row
        fric = lam * L / d + zeta
        if is_gas:
            law = pf - pt + _t(bp[i, PL]) + rho * g * dh / pc \
                - fric * m * absz(m) * pn * tm * K(_pm(pf, pt, st, b)) / (rho_f(tn) * area * area * tn * pc * (pf + pt))
        else:
            law = pf - pt + _t(bp[i, PL]) + rho * g * dh / pc - fric * m * absz(m) / (2 * rho * area * area * pc)
        obs.append({"label": "%s: momentum row = documented law (%s)" % (b, "gas" if is_gas else "liquid"),
                    "fp": "C02/momentum/%s" % ("gas" if is_gas else "liquid"), "goal": row == law, "timeout_ms": 15000})
    # --- reported quantities of single-section elements
    for tbl in ("pipe", "valve", "heat_exchanger"):
        if tbl not in net or not len(net[tbl]):
            continue
        res = net["res_" + tbl]
        for ix in net[tbl].index:
            if tbl == "pipe" and int(net.pipe.at[ix, "sections"]) != 1:
                # multi-section pipe: the reported friction factor, Reynolds number and (liquids) mean velocity are the
                # means of the section values of the system
                nsec = int(net.pipe.at[ix, "sections"])
                secs = ["pipe:%s:%d" % (ix, k) for k in range(nsec)]
                if any(b_ not in st.brow for b_ in secs) or is_nan(res.at[ix, "mdot_from_kg_per_s"]):
                    continue
                lam_m = sum(_t(st.bpit[st.brow[b_], LAMBDA]) for b_ in secs) / nsec
                re_m = sum(_t(st.bpit[st.brow[b_], RE]) for b_ in secs) / nsec
                obs.append({"label": "pipe %s: reported lambda / Re are the section means of the system" % ix,
                            "fp": "C02/reported/lambda",
                            "goal": z3.And(_t(res.at[ix, "lambda"]) == lam_m, _t(res.at[ix, "reynolds"]) == re_m)})
                if not is_gas:
                    d = _t(net.pipe.at[ix, "inner_diameter_mm"]) / 1000
                    area = d * d * pi_ / 4
                    v_m = sum(_t(st.m[b_]) / ((rho_f(_t(st.T[st.fn[b_]])) + rho_f(_t(st.Tout[b_]))) / 2 * area) for b_ in secs) / nsec
                    obs.append({"label": "pipe %s: v_mean = mean of m / (rho A) over the sections" % ix, "fp": "C02/reported/v_mean",
                                "goal": _t(res.at[ix, "v_mean_m_per_s"]) == v_m})
                continue
            b = "%s:%s:0" % (tbl, ix)
            if b not in st.brow or is_nan(res.at[ix, "mdot_from_kg_per_s"]):
                continue
            i = st.brow[b]
            d = _t(net[tbl].at[ix, "inner_diameter_mm"]) / 1000
            area = d * d * pi_ / 4
            m = _t(res.at[ix, "mdot_from_kg_per_s"])
            tfrom, tout = _t(res.at[ix, "t_from_k"]), _t(res.at[ix, "t_outlet_k"])
            pf = _t(res.at[ix, "p_from_bar"]) + _t(st.PAMB[st.fn[b]])
            pt = _t(res.at[ix, "p_to_bar"]) + _t(st.PAMB[st.tn[b]])
            if "lambda" in res.columns:
                obs.append({"label": "%s %s: reported lambda / Re are the ones of the system" % (tbl, ix), "fp": "C02/reported/lambda",
                            "goal": z3.And(_t(res.at[ix, "lambda"]) == _t(st.bpit[i, LAMBDA]), _t(res.at[ix, "reynolds"]) == _t(st.bpit[i, RE]))})
            if not is_gas:
                rho = (rho_f(tfrom) + rho_f(tout)) / 2
                if "v_mean_m_per_s" in res.columns:
                    obs.append({"label": "%s %s: v_mean = m / (rho A)" % (tbl, ix), "fp": "C02/reported/v_mean",
                                "goal": _t(res.at[ix, "v_mean_m_per_s"]) == m / (rho * area)})
                obs.append({"label": "%s %s: vdot = m / rho" % (tbl, ix), "fp": "C02/reported/vdot",
                            "goal": _t(res.at[ix, "vdot_m3_per_s"]) == m / rho})
            else:
                vn = m / (rho_f(tn) * area)
                nf_from = pn * tfrom * (ko + ks * pf) / (tn * pf)
                nf_to = pn * tout * (ko + ks * pt) / (tn * pt)
                obs.append({"label": "%s %s: normfactor_from / _to = p_n T K(p) / (T_n p)" % (tbl, ix), "fp": "C02/reported/normfactor",
                            "goal": z3.And(_t(res.at[ix, "normfactor_from"]) == nf_from, _t(res.at[ix, "normfactor_to"]) == nf_to)})
                if "v_from_m_per_s" in res.columns:
                    obs.append({"label": "%s %s: v_from / v_to = v_N * normfactor" % (tbl, ix), "fp": "C02/reported/v_gas",
                                "goal": z3.And(_t(res.at[ix, "v_from_m_per_s"]) == vn * nf_from,
                                               _t(res.at[ix, "v_to_m_per_s"]) == vn * nf_to)})
                if "v_mean_m_per_s" in res.columns:
                    # the mean velocity of a gas is the norm velocity times the norm factor at mean pressure and temperature
                    pm = _pm(pf, pt, st, b)
                    tmn = (tfrom + tout) / 2
                    nf_mean = pn * tmn * (ko + ks * pm) / (tn * pm)
                    obs.append({"label": "%s %s: v_mean = v_N * normfactor(p_m, T_m)" % (tbl, ix), "fp": "C02/reported/v_mean_gas",
                                "goal": _t(res.at[ix, "v_mean_m_per_s"]) == vn * nf_mean})
    return obs


def _pm(pf, pt, st, b):
    """mean pressure 2/3 (pf^3 - pt^3) / (pf^2 - pt^2); pf for equal end pressures (decided by the path)"""
    from svx.evalterm import evaluate
    try:
        a, c = evaluate(pf, st.p.witness, H.witness_funcs()), evaluate(pt, st.p.witness, H.witness_funcs())
        same = (a == c)
    except Exception:
        same = False
    if same:
        return pf
    return z3.RealVal("2/3") * (pf * pf * pf - pt * pt * pt) / (pf * pf - pt * pt)


def _flowing(st, b):
    from svx.evalterm import evaluate
    try:
        return abs(evaluate(_t(st.m[b]), st.p.witness, H.witness_funcs())) > 1e-7
    except Exception:
        return True


def witnesses(names, p0, job):
    base = dict(names)
    ws = [H.Witness(base), H.Witness(base, kinds={"m": -0.6})]
    mnames = [v[1] for k, v in p0.havoc.items() if k[0] == "m"]
    for mn in mnames[:1]:
        ws.append(H.Witness(dict(names, **{mn: 0.0})))
    return ws


def jobs(tier, seed):
    out = []
    sp = specs()
    if tier == "thorough":
        import random
        rng = random.Random(2000 + seed)
        for i in range(24):
            rs_ = catalog.random_spec(rng, name="rand%d_s%d" % (i, seed))
            # the law is stated for pipes, valves and heat exchangers: other branch kinds stay, they only shape the flows
            sp.append(rs_)
    for s in sp:
        for fr in ("nikuradse", "swamee-jain", "colebrook"):
            for numba in (False, True):
                if s["name"].startswith("rand") and (numba or fr == "colebrook") and fr != "nikuradse":
                    continue
                if fr != "nikuradse" and numba and tier == "quick" and s["name"].endswith("mix"):
                    continue
                out.append({"name": "%s/%s/%s" % (s["name"], fr, "numba" if numba else "numpy"), "spec": s, "friction": fr,
                            "numba": numba, "pfmode": "hydraulics"})
    return out


def worker(job):
    def obl(st, names, job_):
        obs = obligations(st, names, job_)
        for ob in obs:
            ob.setdefault("replay", {"kind": "law", "friction": job_["friction"]})
        return obs
    return thermal.thermal_worker(job, obl, "C02", pfkw={"friction_model": job["friction"]}, witnesses_fn=witnesses)


def replay(rs):
    """real pipeflow to convergence; the documented law is evaluated numerically on the result tables of every
    single-section pipe"""
    import math
    spec = rs["spec"]
    fr = rs.get("friction", "nikuradse")
    for values in (rs.get("values", {}), {}):
        for numba in (False, True):
            net, _ = nets.build(spec, nets.concrete_valuer(values))
            ok, err = concrete_pipeflow(net, use_numba=numba, mode="hydraulics", friction_model=fr, tol_p=1e-11, tol_m=1e-11,
                                        tol_res=1e-11, max_iter_hyd=500)
            if not ok:
                continue
            worst, where = _numeric_law(net, fr)
            if worst > 1e-6:
                return True, {"worst": worst, "where": where, "numba": numba}
    return False, {}


def _numeric_law(net, fr):
    import math
    from pandapipes.constants import GRAVITATION_CONSTANT as g, P_CONVERSION as pc, NORMAL_PRESSURE as pn, NORMAL_TEMPERATURE as tn
    from pandapipes.component_models.component_toolbox import p_correction_height_air
    fl = net.fluid
    worst, where = 0.0, None
    for ix in net.pipe.index:
        if int(net.pipe.at[ix, "sections"]) != 1:
            continue
        r = net.res_pipe.loc[ix]
        m = r.mdot_from_kg_per_s
        if np.isnan(m) or abs(m) < 1e-7:
            continue
        fj, tj = int(net.pipe.at[ix, "from_junction"]), int(net.pipe.at[ix, "to_junction"])
        hf, ht = net.junction.at[fj, "height_m"], net.junction.at[tj, "height_m"]
        pf, pt = r.p_from_bar + p_correction_height_air(hf), r.p_to_bar + p_correction_height_air(ht)
        d = net.pipe.at[ix, "inner_diameter_mm"] / 1000
        L = net.pipe.at[ix, "length_km"] * 1000
        k = net.pipe.at[ix, "k_mm"] / 1000
        zeta = net.pipe.at[ix, "loss_coefficient"]
        A = d * d * math.pi / 4
        tf, to = r.t_from_k, r.t_outlet_k
        tm = (tf + to) / 2
        eta = float(fl.get_viscosity(tm))
        re = abs(m) * d / (eta * A)
        if fr == "nikuradse":
            lam = 64 / re + (1 / (2 * math.log10(d / k) + 1.14) ** 2 if fl.is_gas else 1 / (-2 * math.log10(k / (3.71 * d))) ** 2)
        elif fr == "swamee-jain":
            lam = 0.25 / math.log10(k / (3.7 * d) + 5.74 / re ** 0.9) ** 2
        else:
            lam = r["lambda"]
            impl = lam ** -0.5 + 2 * math.log10(2.51 / (re * math.sqrt(lam)) + k / (3.71 * d))
            if abs(impl) > 1e-3 and abs(impl) > worst:
                worst, where = abs(impl), "pipe %s: Colebrook residual %r" % (ix, impl)
        for nm, got, want in (("lambda", r["lambda"], lam), ("reynolds", r["reynolds"], re)):
            gq = abs(got - want) / (1 + abs(want))
            if gq > worst:
                worst, where = gq, "pipe %s: reported %s %r vs %r" % (ix, nm, got, want)
        if fl.is_gas:
            K = lambda p: float(fl.get_compressibility(p))      # noqa
            rn = float(fl.get_density(tn))
            rho = (rn * tn * pf / (tf * pn * K(pf)) + rn * tn * pt / (to * pn * K(pt))) / 2
            pm = pf if pf == pt else 2 / 3 * (pf ** 3 - pt ** 3) / (pf ** 2 - pt ** 2)
            law = pf - pt + rho * g * (hf - ht) / pc - (lam * L / d + zeta) * m * abs(m) * pn * tm * K(pm) / (rn * A * A * tn * pc * (pf + pt))
        else:
            rho = (float(fl.get_density(tf)) + float(fl.get_density(to))) / 2
            law = pf - pt + rho * g * (hf - ht) / pc - (lam * L / d + zeta) * m * abs(m) / (2 * rho * A * A * pc)
        gq = abs(law) / (1 + abs(pf - pt))
        if gq > worst:
            worst, where = gq, "pipe %s: momentum residual %r bar" % (ix, law)
    # multi-section pipes: the law per section, with the section end pressures / temperatures of Pipe.get_internal_results and
    # the heights interpolated linearly between the end junctions
    from pandapipes.component_models.pipe_component import Pipe
    for ix in net.pipe.index:
        S = int(net.pipe.at[ix, "sections"])
        r = net.res_pipe.loc[ix]
        m = r.mdot_from_kg_per_s
        if S < 2 or np.isnan(m) or abs(m) < 1e-7:
            continue
        try:
            ir = Pipe.get_internal_results(net, np.array([ix]))
        except Exception:   # noqa
            continue
        pin, tin = list(ir["PINIT"][:, 1]), list(ir["TINIT"][:, 1])
        if len(pin) != S - 1:
            continue
        fj, tj = int(net.pipe.at[ix, "from_junction"]), int(net.pipe.at[ix, "to_junction"])
        hf, ht = float(net.junction.at[fj, "height_m"]), float(net.junction.at[tj, "height_m"])
        hs = [hf + (ht - hf) * k / S for k in range(S + 1)]
        ps = [r.p_from_bar] + pin + [r.p_to_bar]
        ts = [r.t_from_k] + tin + [r.t_to_k]
        d = net.pipe.at[ix, "inner_diameter_mm"] / 1000
        L = net.pipe.at[ix, "length_km"] * 1000 / S
        k_ = net.pipe.at[ix, "k_mm"] / 1000
        zeta = net.pipe.at[ix, "loss_coefficient"] / S
        A = d * d * math.pi / 4
        for q in range(S):
            pf, pt = ps[q] + p_correction_height_air(hs[q]), ps[q + 1] + p_correction_height_air(hs[q + 1])
            tf, to = ts[q], ts[q + 1]
            tm = (tf + to) / 2
            eta = float(fl.get_viscosity(tm))
            re = abs(m) * d / (eta * A)
            if fr == "nikuradse":
                lam = 64 / re + (1 / (2 * math.log10(d / k_) + 1.14) ** 2 if fl.is_gas else 1 / (-2 * math.log10(k_ / (3.71 * d))) ** 2)
            elif fr == "swamee-jain":
                lam = 0.25 / math.log10(k_ / (3.7 * d) + 5.74 / re ** 0.9) ** 2
            else:
                lam = r["lambda"]
            if fl.is_gas:
                K = lambda p: float(fl.get_compressibility(p))      # noqa
                rn = float(fl.get_density(tn))
                rho = (rn * tn * pf / (tf * pn * K(pf)) + rn * tn * pt / (to * pn * K(pt))) / 2
                pm = pf if pf == pt else 2 / 3 * (pf ** 3 - pt ** 3) / (pf ** 2 - pt ** 2)
                law = pf - pt + rho * g * (hs[q] - hs[q + 1]) / pc - (lam * L / d + zeta) * m * abs(m) * pn * tm * K(pm) / (rn * A * A * tn * pc * (pf + pt))
            else:
                rho = (float(fl.get_density(tf)) + float(fl.get_density(to))) / 2
                law = pf - pt + rho * g * (hs[q] - hs[q + 1]) / pc - (lam * L / d + zeta) * m * abs(m) / (2 * rho * A * A * pc)
            gq = abs(law) / (1 + abs(pf - pt))
            if gq > worst and (fr != "colebrook" or gq > 1e-4):
                worst, where = gq, "pipe %s section %d: momentum residual %r bar" % (ix, q, law)
    # reported velocities / norm factors of single-section pipes, valves and heat exchangers
    for tbl, fc, tc in (("pipe", "from_junction", "to_junction"), ("valve", "junction", "element"),
                        ("heat_exchanger", "from_junction", "to_junction")):
        if tbl not in net or not len(net[tbl]):
            continue
        for ix in net[tbl].index:
            if tbl == "pipe" and int(net.pipe.at[ix, "sections"]) != 1:
                continue
            if tbl == "valve" and net.valve.at[ix, "et"] != "ju":
                continue
            r = net["res_" + tbl].loc[ix]
            m = r.mdot_from_kg_per_s
            if np.isnan(m) or abs(m) < 1e-7:
                continue
            fj, tj = int(net[tbl].at[ix, fc]), int(net[tbl].at[ix, tc])
            pf = r.p_from_bar + p_correction_height_air(net.junction.at[fj, "height_m"])
            pt = r.p_to_bar + p_correction_height_air(net.junction.at[tj, "height_m"])
            d = net[tbl].at[ix, "inner_diameter_mm"] / 1000
            A = d * d * math.pi / 4
            tf, to = r.t_from_k, r.t_outlet_k
            checks = []
            if fl.is_gas:
                K = lambda p: float(fl.get_compressibility(p))      # noqa
                vn = m / (float(fl.get_density(tn)) * A)
                pm = pf if pf == pt else 2 / 3 * (pf ** 3 - pt ** 3) / (pf ** 2 - pt ** 2)
                tmn = (tf + to) / 2
                nf = lambda p, t: pn * t * K(p) / (tn * p)          # noqa
                if "v_mean_m_per_s" in r.index:
                    checks.append(("v_mean_m_per_s", r.v_mean_m_per_s, vn * nf(pm, tmn)))
                if "v_from_m_per_s" in r.index:
                    checks += [("v_from_m_per_s", r.v_from_m_per_s, vn * nf(pf, tf)), ("v_to_m_per_s", r.v_to_m_per_s, vn * nf(pt, to))]
                if "normfactor_from" in r.index:
                    checks += [("normfactor_from", r.normfactor_from, nf(pf, tf)), ("normfactor_to", r.normfactor_to, nf(pt, to))]
            else:
                rho = (float(fl.get_density(tf)) + float(fl.get_density(to))) / 2
                if "v_mean_m_per_s" in r.index:
                    checks.append(("v_mean_m_per_s", r.v_mean_m_per_s, m / (rho * A)))
            for nm, got, want in checks:
                gq = abs(got - want) / (1e-9 + abs(want))
                if gq > worst and gq > 1e-6:
                    worst, where = gq, "%s %s: reported %s %r vs %r from the reported flow, pressures and temperatures" % (tbl, ix, nm, got, want)
    return worst, where


def main(argv=None):
    return runner.run(PROP, "checks.c02", jobs, META, argv)
