"""C20 — multi-energy coupling conserves energy and equals the decoupled calculation.

  formula    the real P2G / G2P / GasToGas controllers run control_step + write_to_net on tables with symbolic
             p_mw, mdot, scaling, efficiency and heating values (scalar and vector element indices): the written
             value == documented formula (z3)
  roundtrip  power -> gas -> power and gas -> gas -> gas return the product of the efficiencies
  coupled    the real run_control of a multinet (power flow stubbed, pipe nets calculated symbolically): every pipe
             net holds exactly the results of a stand-alone symbolic pipeflow with the written values
  flag       _evaluate_multinet: the multinet is converged iff every net's verdict is converged (all patterns, <= 3 nets)
"""
import copy
import itertools

import numpy as np
import pandas as pd
import z3

from svx import harness as H, nets, catalog, stubs, runner, discharge as D, equiv
from svx.sym import Sym, _t, real, ENG
from svx.common import finish_worker, is_nan, concrete_pipeflow

PROP = "C20"

META = {
    "level": "model_checking",
    "functions": ["multinet.control.controller.multinet_control.P2GControlMultiEnergy/G2PControlMultiEnergy/GasToGasConversion "
                  "(.control_step/.write_to_net/.conversion_factor_*)", "multinet.control.run_control_multinet.run_control/"
                  "_evaluate_multinet/_relevant_nets/net_initialization_multinet/prepare_run_ctrl",
                  "pandapipes.pipeflow (symbolic, as run function of the member nets)"],
    "files": ["src/pandapipes/multinet/control/controller/multinet_control.py",
              "src/pandapipes/multinet/control/run_control_multinet.py", "src/pandapipes/multinet/create_multinet.py"],
    "stubs": ["pandapower.runpp -> sets net.converged (the power flow itself is outside)"] + stubs.STUB_LIST,
    "assumptions": ["heating values, efficiencies, scalings symbolic and positive", "element indices concrete (scalar and list)",
                    "reals instead of doubles"],
    "bound": "3 controller classes x {scalar, vector index} x {power-led, gas-led}; round trips; 1 power + 1-2 gas nets with 1-2 "
             "controllers for the coupled run; all verdict patterns of <= 3 nets",
    "outside": ["the power flow itself", "time series over more than the enumerated steps (see C13)"],
    "rule": "one obligation per written value / result cell / verdict pattern",
}


def _multinet(n_gas=1, vector=False):
    import pandapower as ppw
    import pandapipes as pp
    from pandapipes.multinet.create_multinet import create_empty_multinet, add_net_to_multinet
    mn = create_empty_multinet("mn")
    pw = ppw.create_empty_network()
    b = ppw.create_buses(pw, 2, 20.0)
    ppw.create_ext_grid(pw, b[0])
    ppw.create_line_from_parameters(pw, b[0], b[1], 1.0, 0.1, 0.1, 10, 1.0)
    for k in range(3):
        ppw.create_load(pw, b[1], p_mw=1.0 + k, scaling=1.0)
        ppw.create_sgen(pw, b[1], p_mw=0.0, scaling=1.0)
    add_net_to_multinet(mn, pw, "power")
    gases = []
    for g in range(n_gas):
        gn = pp.create_empty_network(fluid="lgas" if g == 0 else "hgas")
        j = pp.create_junctions(gn, 3, pn_bar=30, tfluid_k=283.15)
        pp.create_ext_grid(gn, j[0], p_bar=30, t_k=283.15)
        pp.create_pipe_from_parameters(gn, j[0], j[1], 1.0, 300.0, k_mm=0.1)
        pp.create_pipe_from_parameters(gn, j[1], j[2], 2.0, 300.0, k_mm=0.1)
        for k in range(3):
            pp.create_source(gn, j[1 + k % 2], mdot_kg_per_s=0.0)
            pp.create_sink(gn, j[1 + (k + 1) % 2], mdot_kg_per_s=0.1 + 0.05 * k)
        add_net_to_multinet(mn, gn, "gas%d" % g if n_gas > 1 else "gas")
        gases.append(gn)
    return mn, pw, gases


def _symcol(df, col, prefix):
    vals = np.empty(len(df), dtype=object)
    for i, ix in enumerate(df.index):
        vals[i] = real("%s[%s]" % (prefix, ix))
    df[col] = pd.Series(vals, index=df.index, dtype=object)


def formula_worker(job):
    from pandapipes.multinet.control.controller import multinet_control as mc
    H.install(symbolic_constants=False)
    viol = []
    kind, vec = job["ctrl"], job["vector"]
    mn, pw, gases = _multinet(2 if kind == "g2g" else 1)
    idx_p = [0, 2] if vec else 1
    idx_g = [1, 2] if vec else 2
    eta = real("eta")
    A = [eta.t > 0]

    def ob(label, a, b, fp):
        if is_nan(a):
            # nothing (NaN) was written where the documented value is expected
            D.STATS.obligations += 1
            viol.append({"fingerprint": fp, "detail": {"what": label + " (NaN written)"},
                         "replay": {"kind": "formula", "ctrl": kind, "vector": vec, "led": job.get("led"), "values": {}}})
            return
        r, m, how = D.check(A, _t(a) == b, sample=label, timeout_ms=8000)
        if r == 'sat':
            viol.append({"fingerprint": fp, "detail": {"what": label},
                         "replay": {"kind": "formula", "ctrl": kind, "vector": vec, "led": job.get("led"), "values": {}}})
        elif r == 'unknown':
            job.setdefault("_inconclusive", []).append(label)
    pairs = list(zip(idx_p, idx_g)) if vec else [(idx_p, idx_g)]
    if kind == "p2g":
        gn = gases[0]
        _symcol(pw.load, "p_mw", "load.p_mw")
        _symcol(pw.load, "scaling", "load.scaling")
        gn.source["mdot_kg_per_s"] = gn.source["mdot_kg_per_s"].astype(object)
        c = mc.P2GControlMultiEnergy(mn, idx_p, idx_g, eta)
        hhv = real("hhv")
        A.append(hhv.t > 0)
        c.fluid_calorific_value = hhv
        before = gn.source.mdot_kg_per_s.copy()
        c.control_step(mn)
        for ip, ig in pairs:
            want = z3.Real("load.p_mw[%d]" % ip) * z3.Real("load.scaling[%d]" % ip) * eta.t * 1000 / (hhv.t * 3600)
            ob("P2G: source %d mdot = P * scaling * eta * 1e3 / (hhv * 3600)" % ig, gn.source.at[ig, "mdot_kg_per_s"], want, "C20/formula/p2g")
        untouched = [ix for ix in gn.source.index if ix not in [g for _, g in pairs]]
        for ix in untouched:
            ob("P2G: other source %d untouched" % ix, gn.source.at[ix, "mdot_kg_per_s"], _t(before[ix]), "C20/formula/p2g_untouched")
    elif kind == "g2p":
        gn = gases[0]
        hhv = real("hhv")
        A.append(hhv.t > 0)
        if job["led"] == "gas":
            _symcol(gn.sink, "mdot_kg_per_s", "sink.mdot")
            _symcol(gn.sink, "scaling", "sink.scaling")
            pw.sgen["p_mw"] = pw.sgen["p_mw"].astype(object)
            c = mc.G2PControlMultiEnergy(mn, idx_p, idx_g, eta, element_type_power="sgen", calc_gas_from_power=False)
            c.fluid_calorific_value = hhv
            c.control_step(mn)
            for ip, ig in pairs:
                want = z3.Real("sink.mdot[%d]" % ig) * z3.Real("sink.scaling[%d]" % ig) * hhv.t * 3600 / 1000 * eta.t
                ob("G2P gas-led: sgen %d p_mw = mdot * scaling * hhv * 3600 / 1e3 * eta" % ip, pw.sgen.at[ip, "p_mw"], want, "C20/formula/g2p_gas_led")
        else:
            _symcol(pw.sgen, "p_mw", "sgen.p_mw")
            _symcol(pw.sgen, "scaling", "sgen.scaling")
            gn.sink["mdot_kg_per_s"] = gn.sink["mdot_kg_per_s"].astype(object)
            c = mc.G2PControlMultiEnergy(mn, idx_p, idx_g, eta, element_type_power="sgen", calc_gas_from_power=True)
            c.fluid_calorific_value = hhv
            c.control_step(mn)
            for ip, ig in pairs:
                want = z3.Real("sgen.p_mw[%d]" % ip) * z3.Real("sgen.scaling[%d]" % ip) / (hhv.t * 3600 / 1000 * eta.t)
                ob("G2P power-led: sink %d mdot = P * scaling / (hhv * 3600 / 1e3 * eta)" % ig, gn.sink.at[ig, "mdot_kg_per_s"], want,
                   "C20/formula/g2p_power_led")
    else:
        g1, g2 = gases
        _symcol(g1.sink, "mdot_kg_per_s", "sink.mdot")
        _symcol(g1.sink, "scaling", "sink.scaling")
        g2.source["mdot_kg_per_s"] = g2.source["mdot_kg_per_s"].astype(object)
        c = mc.GasToGasConversion(mn, idx_p, idx_g, eta, name_gas_net_from="gas0", name_gas_net_to="gas1")
        h1, h2 = real("hhv1"), real("hhv2")
        A += [h1.t > 0, h2.t > 0]
        c.gas1_calorific_value, c.gas2_calorific_value = h1, h2
        c.control_step(mn)
        for i1, i2 in pairs:
            want = z3.Real("sink.mdot[%d]" % i1) * z3.Real("sink.scaling[%d]" % i1) * h1.t / h2.t * eta.t
            ob("G2G: source %d mdot = mdot_in * scaling * hhv1 / hhv2 * eta" % i2, g2.source.at[i2, "mdot_kg_per_s"], want, "C20/formula/g2g")
    ok = getattr(c, "applied", None)
    if ok is not True:
        viol.append({"fingerprint": "C20/applied", "detail": {"what": "controller not marked applied"},
                     "replay": {"kind": "formula", "ctrl": kind, "vector": vec, "led": job.get("led"), "values": {}}})
    return finish_worker(job, H.Exploration(), viol)


def replay_formula(rs):
    from pandapipes.multinet.control.controller import multinet_control as mc
    kind, vec = rs["ctrl"], rs["vector"]
    mn, pw, gases = _multinet(2 if kind == "g2g" else 1)
    idx_p = [0, 2] if vec else 1
    idx_g = [1, 2] if vec else 2
    pairs = list(zip(idx_p, idx_g)) if vec else [(idx_p, idx_g)]
    eta = 0.7
    bad = []
    if kind == "p2g":
        gn = gases[0]
        pw.load["scaling"] = [0.5, 0.8, 1.5]
        c = mc.P2GControlMultiEnergy(mn, idx_p, idx_g, eta)
        hhv = float(np.asarray(gn.fluid.get_property("hhv")).ravel()[0])
        c.control_step(mn)
        for ip, ig in pairs:
            want = pw.load.at[ip, "p_mw"] * pw.load.at[ip, "scaling"] * eta * 1e3 / (hhv * 3600)
            if not abs(gn.source.at[ig, "mdot_kg_per_s"] - want) <= 1e-12 * (1 + abs(want)):
                bad.append("source %d: %r vs %r" % (ig, gn.source.at[ig, "mdot_kg_per_s"], want))
    elif kind == "g2p":
        gn = gases[0]
        hhv = float(np.asarray(gn.fluid.get_property("hhv")).ravel()[0])
        if rs.get("led") == "gas":
            gn.sink["scaling"] = [0.5, 0.8, 1.5]
            c = mc.G2PControlMultiEnergy(mn, idx_p, idx_g, eta, element_type_power="sgen", calc_gas_from_power=False)
            c.control_step(mn)
            for ip, ig in pairs:
                want = gn.sink.at[ig, "mdot_kg_per_s"] * gn.sink.at[ig, "scaling"] * hhv * 3600 / 1e3 * eta
                if not abs(pw.sgen.at[ip, "p_mw"] - want) <= 1e-12 * (1 + abs(want)):
                    bad.append("sgen %d: %r vs %r" % (ip, pw.sgen.at[ip, "p_mw"], want))
        else:
            pw.sgen["p_mw"] = [1.0, 2.0, 3.0]
            pw.sgen["scaling"] = [0.5, 0.8, 1.5]
            c = mc.G2PControlMultiEnergy(mn, idx_p, idx_g, eta, element_type_power="sgen", calc_gas_from_power=True)
            c.control_step(mn)
            for ip, ig in pairs:
                want = pw.sgen.at[ip, "p_mw"] * pw.sgen.at[ip, "scaling"] / (hhv * 3600 / 1e3 * eta)
                if not abs(gn.sink.at[ig, "mdot_kg_per_s"] - want) <= 1e-12 * (1 + abs(want)):
                    bad.append("sink %d: %r vs %r" % (ig, gn.sink.at[ig, "mdot_kg_per_s"], want))
    else:
        g1, g2 = gases
        g1.sink["scaling"] = [0.5, 0.8, 1.5]
        c = mc.GasToGasConversion(mn, idx_p, idx_g, eta, name_gas_net_from="gas0", name_gas_net_to="gas1")
        h1, h2 = float(np.asarray(g1.fluid.get_property("hhv")).ravel()[0]), float(np.asarray(g2.fluid.get_property("hhv")).ravel()[0])
        c.control_step(mn)
        for i1, i2 in pairs:
            want = g1.sink.at[i1, "mdot_kg_per_s"] * g1.sink.at[i1, "scaling"] * h1 / h2 * eta
            if not abs(g2.source.at[i2, "mdot_kg_per_s"] - want) <= 1e-12 * (1 + abs(want)):
                bad.append("source %d: %r vs %r" % (i2, g2.source.at[i2, "mdot_kg_per_s"], want))
    return bool(bad), {"bad": bad}


def roundtrip_worker(job):
    from pandapipes.multinet.control.controller import multinet_control as mc
    H.install(symbolic_constants=False)
    viol = []
    e1, e2, hhv = real("eta1"), real("eta2"), real("hhv")
    A = [e1.t > 0, e2.t > 0, hhv.t > 0]
    if job["trip"] == "power-gas-power":
        mn, pw, gases = _multinet(1)
        gn = gases[0]
        _symcol(pw.load, "p_mw", "load.p_mw")
        _symcol(pw.load, "scaling", "load.scaling")
        gn.source["mdot_kg_per_s"] = gn.source["mdot_kg_per_s"].astype(object)
        gn.sink["mdot_kg_per_s"] = gn.sink["mdot_kg_per_s"].astype(object)
        gn.sink["scaling"] = gn.sink["scaling"].astype(object)
        pw.sgen["p_mw"] = pw.sgen["p_mw"].astype(object)
        c1 = mc.P2GControlMultiEnergy(mn, 1, 2, e1)
        c1.fluid_calorific_value = hhv
        c1.control_step(mn)
        # the produced gas is burnt again: a sink that takes exactly the written source flow
        gn.sink.at[0, "mdot_kg_per_s"] = gn.source.at[2, "mdot_kg_per_s"]
        gn.sink.at[0, "scaling"] = 1.0
        c2 = mc.G2PControlMultiEnergy(mn, 1, 0, e2, element_type_power="sgen", calc_gas_from_power=False)
        c2.fluid_calorific_value = hhv
        c2.control_step(mn)
        got = pw.sgen.at[1, "p_mw"]
        want = z3.Real("load.p_mw[1]") * z3.Real("load.scaling[1]") * e1.t * e2.t
        lab = "power -> gas -> power returns P * scaling * eta1 * eta2"
    else:
        mn, pw, gases = _multinet(2)
        g1, g2 = gases
        h1, h2 = real("hhv1"), real("hhv2")
        A += [h1.t > 0, h2.t > 0]
        _symcol(g1.sink, "mdot_kg_per_s", "sink.mdot")
        _symcol(g1.sink, "scaling", "sink.scaling")
        for g in (g1, g2):
            g.source["mdot_kg_per_s"] = g.source["mdot_kg_per_s"].astype(object)
        g2.sink["mdot_kg_per_s"] = g2.sink["mdot_kg_per_s"].astype(object)
        g2.sink["scaling"] = g2.sink["scaling"].astype(object)
        c1 = mc.GasToGasConversion(mn, 1, 2, e1, name_gas_net_from="gas0", name_gas_net_to="gas1")
        c1.gas1_calorific_value, c1.gas2_calorific_value = h1, h2
        c1.control_step(mn)
        g2.sink.at[0, "mdot_kg_per_s"] = g2.source.at[2, "mdot_kg_per_s"]
        g2.sink.at[0, "scaling"] = 1.0
        c2 = mc.GasToGasConversion(mn, 0, 1, e2, name_gas_net_from="gas1", name_gas_net_to="gas0")
        c2.gas1_calorific_value, c2.gas2_calorific_value = h2, h1
        c2.control_step(mn)
        got = g1.source.at[1, "mdot_kg_per_s"]
        want = z3.Real("sink.mdot[1]") * z3.Real("sink.scaling[1]") * e1.t * e2.t
        lab = "gas -> gas -> gas returns mdot * scaling * eta1 * eta2"
    r, m, how = D.check(A, _t(got) == want, sample=lab, timeout_ms=10000)
    if r == 'sat':
        viol.append({"fingerprint": "C20/roundtrip", "detail": {"what": lab}, "replay": {"kind": "roundtrip", "trip": job["trip"], "values": {}}})
    elif r == 'unknown':
        job.setdefault("_inconclusive", []).append(lab)
    return finish_worker(job, H.Exploration(), viol)


def replay_roundtrip(rs):
    from pandapipes.multinet.control.controller import multinet_control as mc
    e1, e2 = 0.7, 0.55
    if rs["trip"] == "power-gas-power":
        mn, pw, gases = _multinet(1)
        gn = gases[0]
        pw.load["scaling"] = [0.5, 0.8, 1.5]
        mc.P2GControlMultiEnergy(mn, 1, 2, e1).control_step(mn)
        gn.sink.at[0, "mdot_kg_per_s"] = gn.source.at[2, "mdot_kg_per_s"]
        gn.sink.at[0, "scaling"] = 1.0
        mc.G2PControlMultiEnergy(mn, 1, 0, e2, element_type_power="sgen", calc_gas_from_power=False).control_step(mn)
        got, want = pw.sgen.at[1, "p_mw"], pw.load.at[1, "p_mw"] * 0.8 * e1 * e2
    else:
        mn, pw, (g1, g2) = _multinet(2)
        g1.sink["scaling"] = [0.5, 0.8, 1.5]
        mc.GasToGasConversion(mn, 1, 2, e1, name_gas_net_from="gas0", name_gas_net_to="gas1").control_step(mn)
        g2.sink.at[0, "mdot_kg_per_s"] = g2.source.at[2, "mdot_kg_per_s"]
        g2.sink.at[0, "scaling"] = 1.0
        mc.GasToGasConversion(mn, 0, 1, e2, name_gas_net_from="gas1", name_gas_net_to="gas0").control_step(mn)
        got, want = g1.source.at[1, "mdot_kg_per_s"], g1.sink.at[1, "mdot_kg_per_s"] * 0.8 * e1 * e2
    return abs(got - want) > 1e-12 * (1 + abs(want)), {"got": got, "want": want}


# ---- coupled run == stand-alone ----------------------------------------------------------------------------------------------
def coupled_worker(job):
    import pandapower as ppw
    import pandapipes as pp
    from pandapipes.multinet.control.controller import multinet_control as mc
    from pandapipes.multinet.control import run_control_multinet as rcm
    patched, ass = H.install(numba_pyfunc=False)
    viol, errs = [], []
    eta, hhv = real("eta"), real("hhv")
    A = list(ass) + [eta.t > 0, hhv.t > 0]
    holder = {}

    def fake_runpp(net, **kw):
        net["converged"] = True
    import pandapower.control.run_control as pprc        # noqa

    def sym_gas(gn, tag):
        gn.fluid = stubs.make_sym_fluid(True)
        for tbl, cols in (("junction", ["pn_bar", "tfluid_k"]), ("ext_grid", ["p_bar", "t_k"]),
                          ("pipe", ["length_km", "inner_diameter_mm", "k_mm"]), ("sink", ["mdot_kg_per_s", "scaling"]),
                          ("source", ["scaling"])):
            for col in cols:
                _symcol(gn[tbl], col, "%s.%s.%s" % (tag, tbl, col))
        gn.source["mdot_kg_per_s"] = gn.source["mdot_kg_per_s"].astype(object)
        H.objcol(gn.pipe, "outer_diameter_mm")

    def run_multinet():
        mn, pw, gases = _multinet(1)
        gn = gases[0]
        sym_gas(gn, "gas")
        _symcol(pw.load, "p_mw", "load.p_mw")
        _symcol(pw.load, "scaling", "load.scaling")
        c = mc.P2GControlMultiEnergy(mn, job["idx_p"], job["idx_g"], eta)
        c.fluid_calorific_value = hhv
        cv = rcm.prepare_run_ctrl(mn, None)
        cv["nets"]["power"]["run"] = fake_runpp
        rcm.run_control(mn, ctrl_variables=cv, mode="hydraulics", use_numba=False)
        holder["written"] = gn.source.mdot_kg_per_s.copy()
        return gn

    def run_alone():
        mn, pw, gases = _multinet(1)
        gn = gases[0]
        sym_gas(gn, "gas")
        for ip, ig in (zip(job["idx_p"], job["idx_g"]) if isinstance(job["idx_p"], list) else [(job["idx_p"], job["idx_g"])]):
            gn.source.at[ig, "mdot_kg_per_s"] = real("load.p_mw[%d]" % ip) * real("load.scaling[%d]" % ip) * eta * 1000 / (hhv * 3600)
        pp.pipeflow(gn, mode="hydraulics", use_numba=False)
        return gn
    names = {}
    w = H.Witness({}, kinds={"m": 0.8, "p": 28.0, "msl": -1.0})

    class W(H.Witness):
        def __missing__(self, name):
            try:
                return super().__missing__(name)
            except KeyError:
                col = name.split("[")[0].split(".")[-1]
                v = {"pn_bar": 30.0, "tfluid_k": 283.15, "p_bar": 30.0, "t_k": 283.15, "length_km": 1.5, "inner_diameter_mm": 300.0,
                     "k_mm": 0.1, "mdot_kg_per_s": 0.12, "scaling": 1.0, "p_mw": 2.0, "eta": 0.7, "hhv": 11.0}.get(col, 1.0)
                self[name] = v
                return v
    H.CTX.fixed = set()
    ex0 = H.explore_witnesses(run_alone, [W({})], A)
    if ex0.paths[0].exc is not None:
        return finish_worker(job, ex0, [], errors=["stand-alone run raised %r" % (ex0.paths[0].exc,)])
    H.CTX.fixed = H.discover_fixed(ex0.paths[0].systems)
    exa = H.explore_witnesses(run_multinet, [W({})], A)
    pa = exa.paths[0]
    if pa.exc is not None:
        return finish_worker(job, exa, [], errors=["coupled run raised %r" % (pa.exc,)])
    exb = H.explore_witnesses(run_alone, [W(dict(pa.witness))], A)
    pb = exb.paths[0]
    if pb.exc is not None:
        return finish_worker(job, exb, [], errors=["stand-alone run raised %r" % (pb.exc,)])
    hy = A + pa.facts + pb.facts + pa.path + pb.path + pa.defined + pb.defined + pa.lin
    cells_ = list(equiv.default_cells(pa.value, pb.value))
    # the last Newton system of the gas net in the coupled run == the one of the stand-alone run (the written value enters
    # the results only through the right-hand side)
    so, se = equiv.system_obligations(pa.systems[-1], pb.systems[-1], "gas net system")
    errs += se
    cells_ += so
    for lab, x, y in cells_:
        if is_nan(x) or is_nan(y):
            D.STATS.obligations += 1
            if is_nan(x) and is_nan(y):
                D.STATS.rewriter += 1
                continue
            r, m = 'sat', None
        else:
            r, m, how = D.check(hy, _t(x) == _t(y), sample="coupled %s" % lab, timeout_ms=4000,
                                witness=(pa.witness, H.witness_funcs()))
        if r == 'sat':
            viol.append({"fingerprint": "C20/coupled/%s" % lab.split("[")[0], "detail": {"what": lab},
                         "replay": {"kind": "coupled", "idx_p": job["idx_p"], "idx_g": job["idx_g"], "values": {}}})
            if len(viol) >= 3:
                break
        elif r == 'unknown':
            job.setdefault("_inconclusive", []).append(lab)
    exa.paths += exb.paths
    return finish_worker(job, exa, viol, errors=errs)


def coupled_g2g_worker(job):
    """two gas nets coupled by GasToGasConversion through the real run_control: the *target* net (which has no controller of
    its own) holds the results of a stand-alone pipeflow with the written feed-in"""
    import pandapipes as pp
    from pandapipes.multinet.control.controller import multinet_control as mc
    from pandapipes.multinet.control import run_control_multinet as rcm
    patched, ass = H.install(numba_pyfunc=False)
    viol = []
    eta, h1, h2 = real("eta"), real("hhv1"), real("hhv2")
    A = list(ass) + [eta.t > 0, h1.t > 0, h2.t > 0, z3.Real("eta2") > 0, z3.Real("hhv0") > 0]
    i1, i2 = job["idx_from"], job["idx_to"]

    def sym_gas(gn, tag):
        gn.fluid = stubs.make_sym_fluid(True)
        for tbl, cols in (("junction", ["pn_bar", "tfluid_k"]), ("ext_grid", ["p_bar", "t_k"]),
                          ("pipe", ["length_km", "inner_diameter_mm", "k_mm"]), ("sink", ["mdot_kg_per_s", "scaling"]),
                          ("source", ["scaling"])):
            for col in cols:
                _symcol(gn[tbl], col, "%s.%s.%s" % (tag, tbl, col))
        gn.source["mdot_kg_per_s"] = gn.source["mdot_kg_per_s"].astype(object)
        H.objcol(gn.pipe, "outer_diameter_mm")

    def fake_runpp(net, **kw):
        net["converged"] = True

    def run_multinet():
        mn, pw, (g1, g2) = _multinet(2)
        sym_gas(g1, "gas0")
        sym_gas(g2, "gas1")
        c = mc.GasToGasConversion(mn, i1, i2, eta, name_gas_net_from="gas0", name_gas_net_to="gas1")
        c.gas1_calorific_value, c.gas2_calorific_value = h1, h2
        if job.get("second_coupling"):
            # a second coupling controller in the same level that couples another pair of nets (power -> gas0) and comes
            # last: the target net of the first one must still be re-calculated
            _symcol(pw.load, "p_mw", "load.p_mw")
            _symcol(pw.load, "scaling", "load.scaling")
            c2 = mc.P2GControlMultiEnergy(mn, 0, 0, real("eta2"), name_power_net="power", name_gas_net="gas0")
            c2.fluid_calorific_value = real("hhv0")
        cv = rcm.prepare_run_ctrl(mn, None)
        cv["nets"]["power"]["run"] = fake_runpp
        rcm.run_control(mn, ctrl_variables=cv, mode="hydraulics", use_numba=False)
        return g2

    def run_alone():
        mn, pw, (g1, g2) = _multinet(2)
        sym_gas(g2, "gas1")
        g2.source.at[i2, "mdot_kg_per_s"] = real("gas0.sink.mdot_kg_per_s[%d]" % i1) * real("gas0.sink.scaling[%d]" % i1) * h1 / h2 * eta
        pp.pipeflow(g2, mode="hydraulics", use_numba=False)
        return g2

    class W(H.Witness):
        def __missing__(self, name):
            try:
                return super().__missing__(name)
            except KeyError:
                col = name.split("[")[0].split(".")[-1]
                v = {"pn_bar": 30.0, "tfluid_k": 283.15, "p_bar": 30.0, "t_k": 283.15, "length_km": 1.5, "inner_diameter_mm": 300.0,
                     "k_mm": 0.1, "mdot_kg_per_s": 0.12, "scaling": 1.0, "eta": 0.7, "hhv1": 11.0, "hhv2": 13.0, "eta2": 0.6,
                     "hhv0": 11.0, "p_mw": 2.0}.get(col, 1.0)
                self[name] = v
                return v
    H.CTX.fixed = set()
    ex0 = H.explore_witnesses(run_alone, [W({}, kinds={"m": 0.8, "p": 28.0, "msl": -1.0})], A)
    if ex0.paths[0].exc is not None:
        return finish_worker(job, ex0, [], errors=["stand-alone run raised %r" % (ex0.paths[0].exc,)])
    H.CTX.fixed = H.discover_fixed(ex0.paths[0].systems)
    exa = H.explore_witnesses(run_multinet, [W({}, kinds={"m": 0.8, "p": 28.0, "msl": -1.0})], A)
    pa = exa.paths[0]
    if pa.exc is not None:
        return finish_worker(job, exa, [], errors=["coupled run raised %r" % (pa.exc,)])
    exb = H.explore_witnesses(run_alone, [W(dict(pa.witness), kinds={"m": 0.8, "p": 28.0, "msl": -1.0})], A)
    pb = exb.paths[0]
    if pb.exc is not None:
        return finish_worker(job, exb, [], errors=["stand-alone run raised %r" % (pb.exc,)])
    hy = A + pa.facts + pb.facts + pa.path + pb.path + pa.defined + pb.defined + pb.lin
    cells_ = list(equiv.default_cells(pa.value, pb.value))
    # the last Newton system assembled for the target net in the coupled run == the one of the stand-alone run
    tgt = [s_ for s_ in pa.systems if any(n_.startswith("dxh") for n_ in s_.get("xnames", []))]
    sys_b = pb.systems[-1]
    kb_ = sorted(n_.split("[", 1)[1] for n_ in sys_b.get("xnames", []))
    same_unknowns = [s_ for s_ in tgt if sorted(n_.split("[", 1)[1] for n_ in s_.get("xnames", [])) == kb_]
    # both gas nets have the same structure here: the target net's system is the last one whose right-hand side contains
    # symbols of the target net
    from svx.sym import free_vars
    mine = [s_ for s_ in same_unknowns if any(v.startswith("gas1.") for b_ in s_["b"] if isinstance(b_, Sym) for v in free_vars(b_.t))]
    if not mine:
        viol.append({"fingerprint": "C20/coupled_g2g/not_calculated", "detail": {"what": "no system was assembled for the target net"},
                     "replay": {"kind": "coupled_g2g", "idx_from": i1, "idx_to": i2, "second_coupling": bool(job.get("second_coupling")),
                                "values": {}}})
    else:
        so, se = equiv.system_obligations(mine[-1], sys_b, "target net system")
        cells_ += so
    for lab, x, y in cells_:
        if is_nan(x) or is_nan(y):
            D.STATS.obligations += 1
            if is_nan(x) and is_nan(y):
                D.STATS.rewriter += 1
                continue
            r, m = 'sat', None
        else:
            r, m, how = D.check(hy, _t(x) == _t(y), sample="coupled g2g %s" % lab, timeout_ms=4000,
                                witness=(pa.witness, H.witness_funcs()))
        if r == 'sat':
            viol.append({"fingerprint": "C20/coupled_g2g/%s" % lab.split("[")[0], "detail": {"what": lab},
                         "replay": {"kind": "coupled_g2g", "idx_from": i1, "idx_to": i2, "second_coupling": bool(job.get("second_coupling")),
                                    "values": {}}})
            if len(viol) >= 3:
                break
        elif r == 'unknown':
            job.setdefault("_inconclusive", []).append(lab)
    exa.paths += exb.paths
    return finish_worker(job, exa, viol)


def replay_coupled_g2g(rs):
    import pandapipes as pp
    from pandapipes.multinet.control.controller import multinet_control as mc
    from pandapipes.multinet.control import run_control_multinet as rcm
    eta = 0.7
    i1, i2 = rs["idx_from"], rs["idx_to"]
    mn, pw, (g1, g2) = _multinet(2)
    g1.sink["scaling"] = [0.5, 0.8, 1.5]
    mc.GasToGasConversion(mn, i1, i2, eta, name_gas_net_from="gas0", name_gas_net_to="gas1")
    if rs.get("second_coupling"):
        mc.P2GControlMultiEnergy(mn, 0, 0, 0.6, name_power_net="power", name_gas_net="gas0")
    rcm.run_control(mn)
    mnb, pwb, (b1, b2) = _multinet(2)
    hh1 = float(np.asarray(b1.fluid.get_property("hhv")).ravel()[0])
    hh2 = float(np.asarray(b2.fluid.get_property("hhv")).ravel()[0])
    b2.source.at[i2, "mdot_kg_per_s"] = g1.sink.at[i1, "mdot_kg_per_s"] * g1.sink.at[i1, "scaling"] * hh1 / hh2 * eta
    pp.pipeflow(b2)
    worst, where = equiv.max_result_gap(g2, b2)
    return worst > 1e-6, {"worst": worst, "where": where}


def replay_coupled(rs):
    import pandapipes as pp
    from pandapipes.multinet.control.controller import multinet_control as mc
    from pandapipes.multinet.control import run_control_multinet as rcm
    eta = 0.7
    mn, pw, (gn,) = _multinet(1)
    pw.load["scaling"] = [0.5, 0.8, 1.5]
    mc.P2GControlMultiEnergy(mn, rs["idx_p"], rs["idx_g"], eta)
    rcm.run_control(mn)
    mn2, pw2, (g2,) = _multinet(1)
    hhv = float(np.asarray(g2.fluid.get_property("hhv")).ravel()[0])
    pairs = zip(rs["idx_p"], rs["idx_g"]) if isinstance(rs["idx_p"], list) else [(rs["idx_p"], rs["idx_g"])]
    for ip, ig in pairs:
        g2.source.at[ig, "mdot_kg_per_s"] = pw.load.at[ip, "p_mw"] * pw.load.at[ip, "scaling"] * eta * 1e3 / (hhv * 3600)
    pp.pipeflow(g2)
    worst, where = equiv.max_result_gap(gn, g2)
    return worst > 1e-6, {"worst": worst, "where": where}


# ---- convergence flag ------------------------------------------------------------------------------------------------------------
def flag_worker(job):
    from pandapipes.multinet.control import run_control_multinet as rcm
    from pandapower.auxiliary import ADict
    viol = []
    n_ev = 0
    for n in (1, 2, 3):
        for pat in itertools.product([True, False], repeat=n):
            n_ev += 1
            mn = {"nets": {}}
            cv = {"nets": {}}
            for i, ok in enumerate(pat):
                net = ADict()
                net["converged"] = False
                net["OPF_converged"] = False
                mn["nets"]["n%d" % i] = net

                def run(net_, ok=ok, **kw):
                    net_["converged"] = ok
                cv["nets"]["n%d" % i] = {"run": run, "errors": (), "continue_on_divergence": False, "converged": False}
            # every net is relevant: one controller-less levelorder entry per net
            level = [(None, mn["nets"]["n%d" % i]) for i in range(n)]
            levelorder = np.empty((n, 2), dtype=object)
            for i, (c, nn_) in enumerate(level):
                levelorder[i, 0], levelorder[i, 1] = c, nn_
            try:
                out = rcm._evaluate_multinet(mn, levelorder, cv)
                got = bool(out["converged"])
            except Exception as e:
                viol.append({"fingerprint": "C20/flag", "detail": {"pattern": pat, "raised": repr(e)},
                             "replay": {"kind": "flag", "pattern": list(pat)}})
                continue
            if got != all(pat):
                viol.append({"fingerprint": "C20/flag", "detail": {"pattern": pat, "got": got},
                             "replay": {"kind": "flag", "pattern": list(pat)}})
    D.STATS.obligations += n_ev
    D.STATS.rewriter += n_ev - len(viol)
    return finish_worker(job, H.Exploration(), viol, evaluated=n_ev)


def replay_flag(rs):
    from pandapipes.multinet.control import run_control_multinet as rcm
    from pandapower.auxiliary import ADict
    pat = rs["pattern"]
    n = len(pat)
    mn, cv = {"nets": {}}, {"nets": {}}
    for i, ok in enumerate(pat):
        net = ADict()
        net["converged"] = False
        net["OPF_converged"] = False
        mn["nets"]["n%d" % i] = net

        def run(net_, ok=ok, **kw):
            net_["converged"] = ok
        cv["nets"]["n%d" % i] = {"run": run, "errors": (), "continue_on_divergence": False, "converged": False}
    levelorder = np.empty((n, 2), dtype=object)
    for i in range(n):
        levelorder[i, 0], levelorder[i, 1] = None, mn["nets"]["n%d" % i]
    try:
        got = bool(rcm._evaluate_multinet(mn, levelorder, cv)["converged"])
    except Exception as e:
        return True, {"raised": repr(e)}
    return got != all(pat), {"got": got}


def jobs(tier, seed):
    out = []
    for vec in (False, True):
        out.append({"name": "formula/p2g/%s" % ("vector" if vec else "scalar"), "kind": "formula", "ctrl": "p2g", "vector": vec})
        for led in ("gas", "power"):
            out.append({"name": "formula/g2p/%s/%s" % (led, "vector" if vec else "scalar"), "kind": "formula", "ctrl": "g2p",
                        "vector": vec, "led": led})
        out.append({"name": "formula/g2g/%s" % ("vector" if vec else "scalar"), "kind": "formula", "ctrl": "g2g", "vector": vec})
    for trip in ("power-gas-power", "gas-gas-gas"):
        out.append({"name": "roundtrip/%s" % trip, "kind": "roundtrip", "trip": trip})
    out.append({"name": "coupled/scalar", "kind": "coupled", "idx_p": 1, "idx_g": 2})
    out.append({"name": "coupled/vector", "kind": "coupled", "idx_p": [0, 2], "idx_g": [1, 2]})
    out.append({"name": "coupled_g2g/scalar", "kind": "coupled_g2g", "idx_from": 1, "idx_to": 2})
    out.append({"name": "coupled_g2g/two_couplings", "kind": "coupled_g2g", "idx_from": 1, "idx_to": 2, "second_coupling": True})
    out.append({"name": "flag", "kind": "flag"})
    return out


WORKERS = {"formula": formula_worker, "roundtrip": roundtrip_worker, "coupled": coupled_worker, "flag": flag_worker,
           "coupled_g2g": coupled_g2g_worker}
REPLAYS = {"formula": replay_formula, "roundtrip": replay_roundtrip, "coupled": replay_coupled, "flag": replay_flag,
           "coupled_g2g": replay_coupled_g2g}


def worker(job):
    return WORKERS[job["kind"]](job)


def replay(rs):
    return REPLAYS[rs["kind"]](rs)


def main(argv=None):
    return runner.run(PROP, "checks.c20", jobs, META, argv)
