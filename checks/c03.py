"""C03 — prescribed pressures, flows, lifts and ratios are met exactly.

Linear set-points (fixed pressures, controlled pressure / mass flow, circulation pump flow / lift,
loads) are decided on the state after one undamped Newton step from an arbitrary state; pump
curve and compressor ratio at the exact fixed point (all residual rows vanish), DESIGN 3.3.
"""
import random

import numpy as np
import z3

from svx import harness as H, nets, catalog, discharge as D, stubs, runner
from svx.catalog import E
from svx.sym import Sym, _t, ENG
from svx.common import (is_nan, cell_term, pipeflow_worker, concrete_pipeflow, own_row, base_hyps)

PROP = "C03"
SKIP_H = (("junction", "height_m"),)

META = {
    "level": "model_checking",
    "functions": [
        "component_toolbox.set_fixed_node_entries", "ExtGrid/CirculationPump*.create_pit_node_entries",
        "PressureControlComponent.*", "FlowControlComponent.*", "CirculationPumpMass/Pressure.adaption_after_derivatives_hydraulic",
        "Pump.adaption_before_derivatives_hydraulic + PumpStdType.get_pressure (scalar path)",
        "Compressor.adaption_before_derivatives_hydraulic", "ConstFlow.create_pit_node_entries/extract_results",
        "build_system_matrix (fixed-pressure / identity rows)", "solve_hydraulics update lines", "all extract_results",
    ],
    "files": ["src/pandapipes/pf/build_system_matrix.py", "src/pandapipes/component_models/component_toolbox.py",
              "src/pandapipes/component_models/flow_control_component.py",
              "src/pandapipes/component_models/pressure_control_component.py",
              "src/pandapipes/component_models/circulation_pump_mass_component.py",
              "src/pandapipes/component_models/circulation_pump_pressure_component.py",
              "src/pandapipes/component_models/pump_component.py", "src/pandapipes/component_models/compressor_component.py",
              "src/pandapipes/component_models/abstract_models/const_flow_models.py",
              "src/pandapipes/std_types/std_type_class.py"],
    "stubs": stubs.STUB_LIST,
    "assumptions": [
        "reals instead of doubles", "spsolve contract J x = b (post-step) or b = 0 (exact fixed point)",
        "junction heights concrete (lift / ratio clauses are stated for end junctions of equal height)",
        "a junction fixed by several *different* kinds of elements (conflicting prescriptions) is skipped",
        "pump curve: the regression polynomial of the library types P1-P3 (coefficients concrete)",
    ],
    "bound": {"quick": "12 structures (J<=6) with 1-3 prescribing elements each, water and gas, numpy + numba py_func, "
                       "witness regimes forward / reverse / zero flow",
              "thorough": "core + 80 seeded random structures with prescribing elements, flags in/out of service"},
    "outside": ["finite tolerance gap |dx| <= tol", "which of several conflicting prescriptions wins",
                "pump/compressor end junctions at different heights"],
    "rule": "one obligation per prescribing element per path; non-trivial = the set-point is a free symbol",
}


def specs_core():
    S = []
    S.append({"name": "eg_multi", "fluid": "water", "nj": 3, "jh": [0, 3, 1], "elems": [
        E("ext_grid", j=0), E("ext_grid", j=0), E("ext_grid", j=0, in_service=False), E("ext_grid", j=0, type="t"),
        E("ext_grid", j=2, type="p"), E("pipe", f=0, to=1), E("pipe", f=1, to=2, sections=2),
        E("sink", j=1), E("sink", j=1, in_service=False), E("source", j=1), E("mass_storage", j=2)]})
    S.append({"name": "fc_pc", "fluid": "water", "nj": 5, "elems": [
        E("ext_grid", j=0), E("pipe", f=0, to=1), E("press_control", f=1, to=2, cj=2), E("pipe", f=2, to=3),
        E("flow_control", f=3, to=4), E("sink", j=4), E("sink", j=2),
        E("flow_control", f=2, to=4, control_active=False)]})
    S.append({"name": "pc_remote", "fluid": "water", "nj": 4, "elems": [
        E("ext_grid", j=0), E("press_control", f=0, to=1, cj=2), E("pipe", f=1, to=2), E("pipe", f=2, to=3),
        E("sink", j=3), E("sink", j=2)]})
    S.append({"name": "pc_off", "fluid": "water", "nj": 3, "elems": [
        E("ext_grid", j=0), E("press_control", f=0, to=1, cj=1, in_service=True, control_active=False),
        E("pipe", f=1, to=2), E("sink", j=2)]})
    S.append({"name": "circ_p", "fluid": "water", "nj": 4, "elems": [
        E("circ_pump_pressure", ret=3, flow=0), E("pipe", f=0, to=1), E("pipe", f=2, to=3),
        E("flow_control", f=1, to=2), E("heat_exchanger", f=1, to=2)]})
    S.append({"name": "circ_m", "fluid": "water", "nj": 4, "elems": [
        E("circ_pump_mass", ret=3, flow=0), E("pipe", f=0, to=1), E("pipe", f=2, to=3),
        E("valve", j=1, el=2, et="ju"), E("sink", j=2), E("ext_grid", j=3, type="p")]})
    S.append({"name": "circ_two", "fluid": "water", "nj": 6, "elems": [
        E("circ_pump_mass", ret=2, flow=0), E("circ_pump_pressure", ret=5, flow=3),
        E("pipe", f=0, to=1), E("pipe", f=1, to=2), E("pipe", f=3, to=4), E("pipe", f=4, to=5),
        E("ext_grid", j=2, type="p")]})
    S.append({"name": "pump_w", "fluid": "water", "nj": 3, "elems": [
        E("ext_grid", j=0), E("pump", f=0, to=1), E("pipe", f=1, to=2), E("sink", j=2)]})
    S.append({"name": "pump_w_P2", "fluid": "water", "nj": 3, "elems": [
        E("ext_grid", j=0), E("pump", f=1, to=0, std_type="P2"), E("pipe", f=1, to=2), E("sink", j=2),
        E("source", j=1)]})
    S.append({"name": "compr_g", "fluid": "gas", "nj": 3, "elems": [
        E("ext_grid", j=0), E("compressor", f=0, to=1), E("pipe", f=1, to=2), E("sink", j=2), E("source", j=1)]})
    S.append({"name": "pc_standby", "fluid": "water", "nj": 4, "elems": [
        E("ext_grid", j=0), E("pipe", f=0, to=1), E("press_control", f=1, to=2, cj=2, p=4.0),
        E("press_control", f=1, to=2, cj=2, p=3.5, in_service=False, control_active=True), E("pipe", f=2, to=3), E("sink", j=3),
        E("press_control", f=0, to=1, cj=0, p=2.5, in_service=False, control_active=True)]})
    # an out-of-service pump of another type listed before the working ones (the curve must be the working pump's own)
    S.append({"name": "pump_standby", "fluid": "water", "nj": 4, "elems": [
        E("ext_grid", j=0), E("pump", f=0, to=1, std_type="P1", in_service=False), E("pump", f=0, to=1, std_type="P2"),
        E("pump", f=2, to=3, std_type="P3"), E("pipe", f=1, to=2), E("sink", j=3), E("sink", j=2)]})
    S.append({"name": "compr_g_high", "fluid": "gas", "nj": 3, "jh": [850, 850, 850], "elems": [
        E("ext_grid", j=0), E("compressor", f=0, to=1), E("pipe", f=1, to=2), E("sink", j=2), E("source", j=1)]})
    S.append({"name": "pump_w_high", "fluid": "water", "nj": 3, "jh": [400, 400, 420], "elems": [
        E("ext_grid", j=0), E("pump", f=0, to=1, std_type="P3"), E("pipe", f=1, to=2), E("sink", j=2)]})
    S.append({"name": "pump_g", "fluid": "gas", "nj": 3, "elems": [
        E("ext_grid", j=0), E("pump", f=0, to=1), E("pipe", f=1, to=2), E("sink", j=2)]})
    S.append({"name": "fc_g", "fluid": "gas", "nj": 4, "jl": [4, 0, 9, 2], "jorder": [3, 1, 0, 2], "elems": [
        E("ext_grid", j=0), E("ext_grid", j=3, type="pt"), E("pipe", f=0, to=1), E("flow_control", f=1, to=2),
        E("pipe", f=2, to=3), E("sink", j=2), E("mass_storage", j=1)]})
    return S


def random_c03(rng, k):
    fluid = rng.choice(["water", "water", "gas"])
    nj = rng.choice([3, 4, 5])
    elems = [E("ext_grid", j=0)]
    if rng.random() < 0.4:
        elems.append(E("ext_grid", j=0, in_service=rng.random() < 0.7, type=rng.choice(["p", "pt"])))
    special = ["flow_control", "press_control", "pump", "pipe", "valve"] + (["compressor"] if fluid == "gas" else [])
    for j in range(1, nj):
        p = rng.randrange(0, j)
        bt = rng.choice(special)
        if bt == "press_control":
            elems.append(E("press_control", f=p, to=j, cj=j, control_active=rng.random() < 0.8))
        elif bt == "flow_control":
            elems.append(E("flow_control", f=p, to=j, control_active=rng.random() < 0.8))
        elif bt == "valve":
            elems.append(E("valve", j=p, el=j, et="ju"))
        else:
            elems.append(E(bt, f=p, to=j))
    for j in range(1, nj):
        elems.append(E(rng.choice(["sink", "source", "mass_storage"]), j=j, in_service=rng.random() < 0.85))
    return {"name": "rand%d" % k, "fluid": fluid, "nj": nj, "elems": elems}


def _fixers(net):
    """junction -> list of (kind, term) of in-service pressure-fixing prescriptions"""
    fx = {}
    if len(net.ext_grid):
        eg = net.ext_grid
        for ix in eg.index:
            if eg.at[ix, "in_service"] and eg.at[ix, "type"] in ("p", "pt"):
                fx.setdefault(int(eg.at[ix, "junction"]), []).append(("ext_grid", eg.at[ix, "p_bar"]))
    for tbl in ("circ_pump_pressure", "circ_pump_mass"):
        if tbl in net and len(net[tbl]):
            t = net[tbl]
            for ix in t.index:
                if t.at[ix, "in_service"]:
                    fx.setdefault(int(t.at[ix, "flow_junction"]), []).append((tbl, t.at[ix, "p_flow_bar"]))
    if "press_control" in net and len(net.press_control):
        t = net.press_control
        for ix in t.index:
            if t.at[ix, "in_service"] and t.at[ix, "control_active"]:
                fx.setdefault(int(t.at[ix, "controlled_junction"]), []).append(("press_control", t.at[ix, "controlled_p_bar"]))
    return fx


def obligations_step(net, p, names, job):
    obs = []
    resj = net.res_junction
    for j, lst in _fixers(net).items():
        kinds = {k for k, _ in lst}
        pj = resj.at[j, "p_bar"]
        if is_nan(pj):
            continue
        if kinds == {"ext_grid"} or (len(kinds) == 1 and len(lst) == 1):
            mean = sum((_t(v) for _, v in lst), z3.RealVal(0)) / len(lst)
            obs.append({"label": "fixed pressure at junction %s (%s)" % (j, sorted(kinds)), "fp": "C03/fixed_pressure/%s" % sorted(kinds)[0],
                        "goal": _t(pj) == mean, "replay": {"kind": "pressure", "junction": j}})
    for tbl, col, setcol, active in (("flow_control", "mdot_from_kg_per_s", "controlled_mdot_kg_per_s", "control_active"),
                                     ("circ_pump_mass", "mdot_from_kg_per_s", "mdot_flow_kg_per_s", None)):
        if tbl in net and len(net[tbl]):
            t = net[tbl]
            for ix in t.index:
                r = net["res_" + tbl].at[ix, col]
                if is_nan(r) or not t.at[ix, "in_service"] or (active and not t.at[ix, active]):
                    continue
                obs.append({"label": "%s %s carries its set mass flow" % (tbl, ix), "fp": "C03/set_mdot/%s" % tbl,
                            "goal": _t(r) == _t(t.at[ix, setcol]), "replay": {"kind": "mdot", "table": tbl, "index": int(ix)}})
                r2 = net["res_" + tbl].at[ix, "mdot_to_kg_per_s"]
                obs.append({"label": "%s %s mdot_to = -set mass flow" % (tbl, ix), "fp": "C03/set_mdot/%s" % tbl,
                            "goal": _t(r2) == -_t(t.at[ix, setcol]), "replay": {"kind": "mdot", "table": tbl, "index": int(ix)}})
    if "circ_pump_pressure" in net and len(net.circ_pump_pressure):
        t = net.circ_pump_pressure
        for ix in t.index:
            res = net.res_circ_pump_pressure
            pf_, pt_ = res.at[ix, "p_from_bar"], res.at[ix, "p_to_bar"]
            if is_nan(pf_) or not t.at[ix, "in_service"]:
                continue
            obs.append({"label": "circ_pump_pressure %s lifts by plift" % ix, "fp": "C03/plift",
                        "goal": _t(pt_) - _t(pf_) == _t(t.at[ix, "plift_bar"]),
                        "replay": {"kind": "plift", "index": int(ix)}})
    for tbl, sg in (("sink", 1), ("source", 1), ("mass_storage", 1)):
        if tbl in net and len(net[tbl]):
            t = net[tbl]
            for ix in t.index:
                r = net["res_" + tbl].at[ix, "mdot_kg_per_s"]
                supplied = not is_nan(net.res_junction.at[int(t.at[ix, "junction"]), "p_bar"])
                if t.at[ix, "in_service"] and supplied:
                    goal = (_t(r) == _t(t.at[ix, "mdot_kg_per_s"]) * _t(t.at[ix, "scaling"])) if not is_nan(r) else z3.BoolVal(False)
                    obs.append({"label": "%s %s reports mdot*scaling" % (tbl, ix), "fp": "C03/load/%s" % tbl, "goal": goal,
                                "replay": {"kind": "load", "table": tbl, "index": int(ix)}})
                elif not is_nan(r):
                    obs.append({"label": "%s %s out of service / unsupplied reports a number" % (tbl, ix),
                                "fp": "C03/load_nan/%s" % tbl, "goal": z3.BoolVal(False),
                                "replay": {"kind": "load", "table": tbl, "index": int(ix)}})
    return obs


def _pump_poly(net, std_type, vdot):
    st = net.std_types["pump"][std_type]
    n = len(st.reg_par)
    v = vdot * 3600
    acc = z3.RealVal(0)
    for i, c in enumerate(st.reg_par):
        e = n - 1 - i
        term = _t(float(c))
        for _ in range(e):
            term = term * v
        acc = acc + term
    return acc


def obligations_fp(net, p, names, job):
    """pump curve and compressor ratio at the exact fixed point"""
    from svx.stubs import PAMBF
    obs = []
    is_gas = net.fluid.is_gas

    def pabs(j, pterm):
        h = net.junction.at[j, "height_m"]
        import pandapipes.component_models.component_toolbox as ct
        return _t(pterm) + _t(ct.p_correction_height_air(h))

    if "compressor" in net and len(net.compressor):
        t = net.compressor
        for ix in t.index:
            res = net.res_compressor
            pf_, pt_, m = res.at[ix, "p_from_bar"], res.at[ix, "p_to_bar"], res.at[ix, "mdot_from_kg_per_s"]
            if is_nan(pf_):
                continue
            fj, tj = int(t.at[ix, "from_junction"]), int(t.at[ix, "to_junction"])
            ratio = _t(t.at[ix, "pressure_ratio"])
            goal = z3.If(_t(m) >= 0, pabs(tj, pt_) == ratio * pabs(fj, pf_), pabs(tj, pt_) == pabs(fj, pf_))
            obs.append({"label": "compressor %s pressure ratio / zero lift on reverse flow" % ix, "fp": "C03/compressor_ratio",
                        "goal": goal, "replay": {"kind": "compressor", "index": int(ix)},
                        "hyps_min": base_hyps(p) + [own_row(p, "compressor", ix)] if p is not None else None})
    if "pump" in net and len(net.pump):
        t = net.pump
        for ix in t.index:
            res = net.res_pump
            pf_, pt_, dp = res.at[ix, "p_from_bar"], res.at[ix, "p_to_bar"], res.at[ix, "deltap_bar"]
            if is_nan(pf_):
                continue
            fj, tj = int(t.at[ix, "from_junction"]), int(t.at[ix, "to_junction"])
            # reported lift equals the pressure difference of the reported end pressures
            obs.append({"label": "pump %s: p_to - p_from = reported deltap" % ix, "fp": "C03/pump_lift_consistent",
                        "goal": pabs(tj, pt_) - pabs(fj, pf_) == _t(dp), "replay": {"kind": "pump", "index": int(ix)},
                        "hyps_min": base_hyps(p) + [own_row(p, "pump", ix)] if p is not None else None})
            if not is_gas:
                vd = _t(res.at[ix, "vdot_m3_per_s"])
                poly = _pump_poly(net, t.at[ix, "std_type"], vd)
                goal = z3.If(vd >= 0, _t(dp) == z3.If(poly >= 0, poly, 0), _t(dp) == 0)
                # sequential mode: the hydraulic stage evaluates the curve with the start temperatures, the reported
                # volume flow uses the solved ones (own fingerprint: known finding F37)
                obs.append({"label": "pump %s: deltap = max(0, curve(reported vdot)), 0 for reverse flow" % ix,
                            "fp": "C03/pump_curve" + ("/sequential" if job.get("pfmode") == "sequential" else ""),
                            "goal": goal, "replay": {"kind": "pump", "index": int(ix)},
                            "timeout_ms": 20000, "hyps_min": base_hyps(p) if p is not None else None})
            else:
                m = _t(res.at[ix, "mdot_from_kg_per_s"])
                obs.append({"label": "pump %s (gas): zero lift for reverse flow, lift >= 0" % ix,
                            "fp": "C03/pump_curve_gas", "goal": z3.And(_t(dp) >= 0, z3.Implies(m < 0, _t(dp) == 0)),
                            "replay": {"kind": "pump", "index": int(ix)},
                            "hyps_min": base_hyps(p) if p is not None else None})
    return obs


def witnesses(names, p0, job):
    base = dict(names)
    ws = [H.Witness(base), H.Witness(base, kinds={"m": -0.6})]
    mnames = [v[1] for k, v in p0.havoc.items() if k[0] == "m"]
    for mn in mnames[:4]:
        ws.append(H.Witness(dict(names, **{mn: 0.0})))
    return ws


def jobs(tier, seed):
    specs = specs_core()
    rng = random.Random(3000 + seed)
    for k in range(6 if tier == "quick" else 80):
        specs.append(random_c03(rng, k))
    out = []
    for s in specs:
        has_nl = any(e["t"] in ("pump", "compressor") for e in s["elems"])
        for numba in (False, True):
            out.append({"name": "%s/step/%s" % (s["name"], "numba" if numba else "numpy"), "spec": s, "numba": numba,
                        "kind": "step"})
            if has_nl:
                out.append({"name": "%s/fixpoint/%s" % (s["name"], "numba" if numba else "numpy"), "spec": s,
                            "numba": numba, "kind": "fp"})
    # the same set-points in the thermal modes (temperatures solved, not the start values)
    byname = {s["name"]: s for s in specs}
    thermal = [("pump_w", "sequential", "fp"), ("pump_w", "bidirectional", "fp"), ("fc_pc", "sequential", "step"),
               ("circ_p", "bidirectional", "step"), ("circ_two", "sequential", "step")]
    if tier != "quick":
        thermal += [("pump_standby", "bidirectional", "fp"), ("pump_w_high", "sequential", "fp"),
                    ("eg_multi", "sequential", "step"), ("circ_m", "bidirectional", "step"),
                    ("pc_standby", "bidirectional", "step"), ("circ_p", "sequential", "step")]
    for nm, mode, kind in thermal:
        for numba in ((False,) if tier == "quick" else (False, True)):
            out.append({"name": "%s/%s/%s/%s" % (nm, "step" if kind == "step" else "fixpoint", mode,
                                                 "numba" if numba else "numpy"),
                        "spec": byname[nm], "numba": numba, "kind": kind, "pfmode": mode})
    return out


def worker(job):
    mode = job.get("pfmode") or "hydraulics"
    if job["kind"] == "step":
        return pipeflow_worker(job, dict(mode=mode), obligations_step, witnesses_fn=witnesses,
                               build_kwargs={"skip": SKIP_H})
    return pipeflow_worker(job, dict(mode=mode), obligations_fp, fixed_point=True, witnesses_fn=witnesses,
                           build_kwargs={"skip": SKIP_H}, validate=0)


def replay(rs):
    """real pipeflow to convergence with the counterexample's inputs; evaluate the set-point numerically"""
    spec = rs["spec"]
    out = {}
    worst = 0.0
    # the solver's values first; nominal inputs as a second attempt when the real solver does not
    # converge on them (the obligations are claimed for all values, so any reproducing input counts)
    for numba, values in ((False, rs.get("values", {})), (True, rs.get("values", {})), (False, {}), (True, {})):
        key = "numba=%s/%s" % (numba, "model" if values else "nominal")
        if not values and worst > 1e-6:
            break
        net, _ = nets.build(spec, nets.concrete_valuer(values), skip=SKIP_H)
        mode = (rs.get("pipeflow_kwargs") or {}).get("mode") or "hydraulics"
        ok, err = concrete_pipeflow(net, use_numba=numba, mode=mode, tol_p=1e-9, tol_m=1e-9, tol_res=1e-9,
                                    max_iter_hyd=200, **({} if mode == "hydraulics" else
                                                         dict(tol_T=1e-9, max_iter_therm=200, max_iter_bidirect=200)))
        numba = key
        if not ok:
            out[key] = "pipeflow failed: %s" % err
            continue
        devs = []
        for fn_ in (obligations_step, obligations_fp):
            for ob in fn_(net, None, {}, {"pfmode": mode}):
                if ob["label"] != rs.get("label"):
                    continue
                g = z3.simplify(ob["goal"])
                devs.append((ob["label"], _numeric_gap(ob["goal"])))
        out[key] = devs
        for _, gap in devs:
            worst = max(worst, gap)
    return worst > 1e-6, out


def _numeric_gap(goal):
    """relative gap of a concrete (in)equality goal built from floats"""
    from svx.evalterm import evaluate
    def gap(g):
        if z3.is_eq(g):
            a, b = evaluate(g.arg(0), {}), evaluate(g.arg(1), {})
            return abs(a - b) / (1 + abs(a) + abs(b))
        if z3.is_app_of(g, z3.Z3_OP_ITE):
            return gap(g.arg(1)) if evaluate(g.arg(0), {}) else gap(g.arg(2))
        if z3.is_and(g):
            return max(gap(c) for c in g.children())
        if z3.is_false(g):
            return 1.0
        if z3.is_true(g):
            return 0.0
        return 0.0 if evaluate(g, {}) else 1.0
    return gap(goal)


def main(argv=None):
    return runner.run(PROP, "checks.c03", jobs, META, argv)
