"""C17 — restructuring tools preserve referential integrity and physics.

  relabel   reindex_junctions / reindex_pipes / reindex_elements / create_continuous_*: the real tool is applied to the
            (symbolic) net; z3 proves that Newton systems and all results of the relabelled net equal those of the original
            through the relabelling, for all parameter values (two-run equivalence, equiv.py)
  subnet    select_subnet on a complete supplied region: results of the region equal those inside the full net (z3)
  integrity after every tool (incl. drop_junctions, drop_pipes, drop_elements_at_junctions, fuse_junctions, select_subnet and
            sequences of two tools): every junction / pipe reference points to an existing row, and rows the tool was not
            asked to touch keep their values (evaluation, labelled so)
"""
import copy
import itertools
import random

import numpy as np

from svx import harness as H, nets, catalog, stubs, runner, equiv, discharge as D
from svx.catalog import E
from svx.common import concrete_pipeflow, finish_worker, is_nan

PROP = "C17"

META = {
    "level": "model_checking",
    "functions": ["toolbox.reindex_junctions/reindex_pipes/reindex_elements/create_continuous_junction_index/"
                  "create_continuous_elements_index/element_junction_tuples", "toolbox.select_subnet",
                  "toolbox.drop_junctions/drop_pipes/drop_elements_at_junctions/fuse_junctions (integrity part)",
                  "pandapipes.pipeflow (symbolic, both descriptions)"],
    "files": ["src/pandapipes/toolbox.py"],
    "stubs": stubs.STUB_LIST,
    "assumptions": ["labels / lookups are concrete and enumerated (incl. coincidences between pipe and junction labels)",
                    "integrity part is decided by evaluation", "reals instead of doubles"],
    "bound": {"quick": "7 structures (junction-pipe valve, remote pressure controller, circulation pump, gas, three pi valves, coinciding labels, mixed valve kinds with non-positional labels) x 3 lookups x tools; "
                       "select_subnet on 2 two-island nets; integrity over single tools and seeded pairs",
              "thorough": "+ random structures and all tool pairs"},
    "outside": ["sequences longer than 2 operations", "symbolic labels"],
    "rule": "relabel/subnet: system entries + result cells; integrity: per tool application evaluated reference sets",
}

REF_COLS = None


def ref_cols(net):
    """(table, column, referenced table)"""
    out = []
    for tbl in net.keys():
        if not isinstance(tbl, str) or tbl.startswith("res_") or tbl.startswith("_") or not hasattr(net[tbl], "columns"):
            continue
        for col in net[tbl].columns:
            if col in ("junction", "from_junction", "to_junction", "return_junction", "flow_junction", "controlled_junction"):
                out.append((tbl, col, "junction"))
    return out


def integrity_problems(net):
    bad = []
    js = set(net.junction.index)
    for tbl, col, ref in ref_cols(net):
        if tbl == "valve" and col == "junction":
            pass
        for ix in net[tbl].index:
            v = net[tbl].at[ix, col]
            if int(v) not in js:
                bad.append("%s[%s].%s = %s is no junction" % (tbl, ix, col, v))
    if "valve" in net and len(net.valve):
        ps = set(net.pipe.index)
        for ix in net.valve.index:
            el = int(net.valve.at[ix, "element"])
            if net.valve.at[ix, "et"] == "pi":
                if el not in ps:
                    bad.append("valve[%s].element = %s is no pipe" % (ix, el))
            elif el not in js:
                bad.append("valve[%s].element = %s is no junction" % (ix, el))
    for tbl in net.keys():
        if isinstance(tbl, str) and hasattr(net[tbl], "index") and hasattr(net[tbl], "columns") and not tbl.startswith("_"):
            if net[tbl].index.has_duplicates:
                bad.append("duplicate index in %s" % tbl)
    return bad


def structures():
    S = [catalog.w_pi_valve(), catalog.w_components(), catalog.w_circ_mass(), catalog.g_components(), catalog.w_three_pi()]
    # pipe labels that coincide with junction labels, and a junction-pipe valve whose pipe label is a junction label too
    s = {"name": "w_pi_coincide", "fluid": "water", "nj": 4, "jl": [0, 1, 2, 3], "elems": [
        E("ext_grid", j=0), E("pipe", f=0, to=1, index=2), E("pipe", f=1, to=2, index=3), E("pipe", f=2, to=3, index=0),
        E("valve", j=1, el=3, et="pi"), E("valve", j=3, el=0, et="pi"), E("sink", j=3), E("sink", j=2),
        E("press_control", f=1, to=3, cj=3)]}
    S.append(s)
    # junction valves and junction-pipe valves side by side, the valve labels are not the row positions
    # (only the junction valves' element column holds junction labels)
    S.append({"name": "g_valves_mixed", "fluid": "gas", "nj": 5, "elems": [
        E("ext_grid", j=0), E("pipe", f=0, to=1, index=0), E("pipe", f=1, to=2, index=1), E("pipe", f=3, to=4, index=2),
        E("valve", j=2, el=3, et="ju", index=1), E("valve", j=1, el=1, et="pi", index=0),
        E("valve", j=2, el=4, et="ju", index=5, zeta=0.7), E("sink", j=4), E("sink", j=2)]})
    return S


def lookups(spec, rng, k):
    nj = spec["nj"]
    labels = [nets.jlabel(spec, i) for i in range(nj)]
    pool = [0, 1, 2, 3, 4, 5, 7, 11, 42, 100000]
    if k == 0:
        new = [l + 10 for l in labels]
    elif k == 1:
        new = labels[1:] + labels[:1]           # a permutation of the existing labels that is not its own inverse
    elif k == 3:
        new = list(reversed(labels))
    else:
        new = rng.sample([p for p in pool], nj)
    return dict(zip(labels, new))


def relabel_worker(job):
    import pandapipes as pp
    H.install(numba_pyfunc=False)
    spec = copy.deepcopy(job["spec"])
    cnt = {}
    for e in spec["elems"]:
        e.setdefault("index", cnt.get(e["t"], 0))
        cnt[e["t"]] = max(cnt.get(e["t"], 0), e["index"] + 1)
    rng = random.Random(job["lseed"])
    tool = job["tool"]
    jlook = lookups(spec, rng, job["k"])
    plabels = [e["index"] for e in spec["elems"] if e["t"] == "pipe"]
    plook = dict(zip(plabels, rng.sample([0, 1, 2, 3, 5, 8, 13, 99], len(plabels)))) if job["k"] else {p: p + 20 for p in plabels}
    ident, fwd = {}, {}

    def apply_tool(net):
        if tool == "reindex_junctions":
            pp.reindex_junctions(net, dict(jlook))
        elif tool == "reindex_pipes":
            pp.reindex_pipes(net, dict(plook))
        elif tool == "reindex_elements_sink":
            pp.reindex_elements(net, "sink", {ix: ix + 5 for ix in net.sink.index})
        elif tool == "continuous_junctions":
            pp.reindex_junctions(net, dict(jlook))
            pp.create_continuous_junction_index(net, start=3)
        elif tool == "continuous_elements":
            pp.reindex_pipes(net, dict(plook))
            pp.create_continuous_elements_index(net, start=2)
        elif tool == "both":
            pp.reindex_junctions(net, dict(jlook))
            pp.reindex_pipes(net, dict(plook))
    # concrete dry run to learn the final labels: every row is tagged with its old label in the free-text "name" column
    # (the tools may re-sort rows), and the tag is read back after the tool has run
    net0, _ = nets.build(spec, nets.concrete_valuer({}))
    tabs = [t for t in net0.keys() if isinstance(t, str) and hasattr(net0[t], "columns") and not t.startswith("res_")
            and not t.startswith("_") and len(net0[t]) and "name" in net0[t].columns]
    for t in tabs:
        net0[t]["name"] = ["id:%s" % ix for ix in net0[t].index]
    nrows = {t: len(net0[t]) for t in tabs}
    try:
        apply_tool(net0)
    except Exception as e:
        return finish_worker(job, H.Exploration(), [{"fingerprint": "C17/tool_raises/%s" % tool, "detail": {"job": job["name"], "raised": repr(e)},
                                                     "replay": _rp(job, spec)}])
    for t in tabs:
        if len(net0[t]) != nrows[t]:
            return finish_worker(job, H.Exploration(), [], errors=["tool changed the number of rows of %s" % t])
        ident[t] = {int(n): int(str(nm)[3:]) for n, nm in zip(net0[t].index, net0[t]["name"].values)}
        fwd[t] = {o: n for n, o in ident[t].items()}
    viol = []
    ip = integrity_problems(net0)
    if ip:
        viol.append({"fingerprint": "C17/integrity/%s" % tool, "detail": {"job": job["name"], "what": ip[:3]}, "replay": _rp(job, spec)})
        return finish_worker(job, H.Exploration(), viol, evaluated=1)
    kw = dict(mode=job["pfmode"], use_numba=False)
    ra = equiv.RunSpec(spec, kw)
    rb = equiv.RunSpec(spec, kw, edit_fn=apply_tool, row_map=lambda tbl, ix: fwd.get(tbl, {}).get(ix, ix))
    rb.late_ident = ident
    r = equiv.equiv_worker(job, ra, rb, fp_prefix="C17/relabel/%s" % tool, replay_kind="relabel", replay_extra=_rp(job, spec))
    return r


def _rp(job, spec):
    return {"kind": "relabel", "spec": spec, "tool": job["tool"], "k": job["k"], "lseed": job["lseed"], "pfmode": job.get("pfmode"),
            "values": {}}


def replay_relabel(rs):
    import pandapipes as pp
    spec = rs["spec"]
    rng = random.Random(rs["lseed"])
    jlook = lookups(spec, rng, rs["k"])
    plabels = [e["index"] for e in spec["elems"] if e["t"] == "pipe"]
    plook = dict(zip(plabels, rng.sample([0, 1, 2, 3, 5, 8, 13, 99], len(plabels)))) if rs["k"] else {p: p + 20 for p in plabels}
    tool = rs["tool"]
    na, _ = nets.build(spec, nets.concrete_valuer(rs.get("values", {})))
    nb, _ = nets.build(spec, nets.concrete_valuer(rs.get("values", {})))
    tabs = [t for t in nb.keys() if isinstance(t, str) and hasattr(nb[t], "columns") and not t.startswith("res_")
            and not t.startswith("_") and len(nb[t]) and "name" in nb[t].columns]
    for t in tabs:
        nb[t]["name"] = ["id:%s" % ix for ix in nb[t].index]
    try:
        if tool == "reindex_junctions":
            pp.reindex_junctions(nb, dict(jlook))
        elif tool == "reindex_pipes":
            pp.reindex_pipes(nb, dict(plook))
        elif tool == "reindex_elements_sink":
            pp.reindex_elements(nb, "sink", {ix: ix + 5 for ix in nb.sink.index})
        elif tool == "continuous_junctions":
            pp.reindex_junctions(nb, dict(jlook))
            pp.create_continuous_junction_index(nb, start=3)
        elif tool == "continuous_elements":
            pp.reindex_pipes(nb, dict(plook))
            pp.create_continuous_elements_index(nb, start=2)
        elif tool == "both":
            pp.reindex_junctions(nb, dict(jlook))
            pp.reindex_pipes(nb, dict(plook))
    except Exception as e:
        return True, {"tool raised": repr(e)}
    ip = integrity_problems(nb)
    if ip:
        return True, {"integrity": ip[:3]}
    fwd = {t: {int(str(nm)[3:]): int(n) for n, nm in zip(nb[t].index, nb[t]["name"].values)} for t in tabs}
    mode = rs.get("pfmode") or "hydraulics"
    kw = dict(use_numba=False, mode=mode, tol_p=1e-10, tol_m=1e-10, tol_res=1e-10, max_iter_hyd=300, max_iter_therm=300)
    oka, ea = concrete_pipeflow(na, **kw)
    okb, eb = concrete_pipeflow(nb, **kw)
    if oka != okb:
        return True, {"convergence differs": [ea, eb]}
    if not oka:
        return False, {"both fail": ea}
    worst, where = equiv.max_result_gap(na, nb, row_map=lambda tbl, ix: fwd.get(tbl, {}).get(ix, ix))
    return worst > 1e-6, {"worst": worst, "where": where}


# ---- select_subnet ---------------------------------------------------------------------------------------------------------------
def two_islands():
    S = []
    S.append({"name": "w_two_islands", "fluid": "water", "nj": 6, "elems": [
        E("ext_grid", j=0), E("pipe", f=0, to=1), E("pipe", f=1, to=2, sections=2), E("valve", j=0, el=2, et="ju"), E("sink", j=2),
        E("sink", j=1), E("ext_grid", j=3), E("pipe", f=3, to=4), E("pump", f=4, to=5), E("sink", j=5), E("source", j=4)]})
    S.append({"name": "g_two_islands_pi", "fluid": "gas", "nj": 5, "elems": [
        E("ext_grid", j=0), E("pipe", f=0, to=1, index=4), E("pipe", f=1, to=2, index=1), E("valve", j=1, el=1, et="pi"),
        E("sink", j=2), E("ext_grid", j=3), E("pipe", f=3, to=4, index=0), E("sink", j=4)]})
    return S


def subnet_worker(job):
    import pandapipes as pp
    H.install(numba_pyfunc=False)
    spec = copy.deepcopy(job["spec"])
    cnt = {}
    for e in spec["elems"]:
        e.setdefault("index", cnt.get(e["t"], 0))
        cnt[e["t"]] = max(cnt.get(e["t"], 0), e["index"] + 1)
    region = job["region"]
    kw = dict(mode="hydraulics", use_numba=False)
    holder = {}

    def sub(net):
        sn = pp.select_subnet(net, region)
        holder["sn"] = sn
        # continue the run on the selected subnet: replace the tables in place
        for k in list(net.keys()):
            if isinstance(k, str) and hasattr(net[k], "columns") and k in sn:
                net[k] = sn[k]
    ra = equiv.RunSpec(spec, kw)
    rb = equiv.RunSpec(spec, kw, edit_fn=sub)
    reg = set(region)

    def cells(neta, netb):
        out = []
        for lab, x, y in equiv.default_cells(neta, netb):
            out.append((lab, x, y))
        # every junction / element of the region must be present in the subnet
        for j in reg:
            if j not in netb.res_junction.index:
                out.append(("junction %s missing in the subnet" % j, 1.0, 0.0))
        return out
    # the subnet's Newton system is the region's block of the full system (and the full system has no entry coupling the
    # region to the other island)
    return equiv.equiv_worker(job, ra, rb, fp_prefix="C17/subnet", replay_kind="subnet", cells_fn=cells, compare_systems="subset",
                              replay_extra={"region": region})


def replay_subnet(rs):
    import pandapipes as pp
    spec = rs["spec"]
    na, _ = nets.build(spec, nets.concrete_valuer(rs.get("values", {})))
    kw = dict(use_numba=False, mode="hydraulics", tol_p=1e-10, tol_m=1e-10, tol_res=1e-10, max_iter_hyd=300)
    oka, ea = concrete_pipeflow(na, **kw)
    nb0, _ = nets.build(spec, nets.concrete_valuer(rs.get("values", {})))
    try:
        nb = pp.select_subnet(nb0, rs["region"])
    except Exception as e:
        return True, {"select_subnet raised": repr(e)}
    ip = integrity_problems(nb)
    if ip:
        return True, {"integrity": ip[:3]}
    okb, eb = concrete_pipeflow(nb, **kw)
    if oka != okb:
        return True, {"convergence differs": [ea, eb]}
    if not oka:
        return False, {"both fail": ea}
    worst, where = equiv.max_result_gap(na, nb)
    missing = [j for j in rs["region"] if j not in nb.res_junction.index]
    return worst > 1e-6 or bool(missing), {"worst": worst, "where": where, "missing": missing}


# ---- integrity of the dropping / fusing tools -----------------------------------------------------------------------------------------
def integrity_worker(job):
    import pandapipes as pp
    viol = []
    n_ev = 0
    rng = random.Random(job["seed_"])
    for spec in structures() + two_islands():
        labels = [nets.jlabel(spec, i) for i in range(spec["nj"])]
        ops = []
        ops.append(("drop_junctions", lambda n, l=labels: pp.drop_junctions(n, [l[-1]])))
        ops.append(("drop_elements_at_junctions", lambda n, l=labels: pp.drop_elements_at_junctions(n, [l[1]])))
        ops.append(("drop_pipes", lambda n: pp.drop_pipes(n, [n.pipe.index[0]])))
        ops.append(("fuse_junctions", lambda n, l=labels: pp.fuse_junctions(n, l[0], [l[1]])))
        ops.append(("select_subnet", lambda n, l=labels: None))
        ops.append(("reindex_junctions", lambda n, l=labels: pp.reindex_junctions(n, {x: x + 7 for x in l})))
        seqs = [(o,) for o in ops] + [tuple(rng.sample(ops, 2)) for _ in range(3)]
        for seq in seqs:
            n_ev += 1
            net, _ = nets.build(spec, nets.concrete_valuer({}))
            names = []
            try:
                for nm, fn in seq:
                    names.append(nm)
                    if nm == "select_subnet":
                        net = pp.select_subnet(net, list(net.junction.index[:max(2, len(net.junction) - 1)]))
                    else:
                        fn(net)
            except Exception as e:
                # a tool may refuse an operation (e.g. dropping what is gone already in a pair); an unexpected crash on a
                # single operation is an integrity problem of its own
                if len(seq) == 1:
                    viol.append({"fingerprint": "C17/integrity/%s" % names[-1], "detail": {"spec": spec["name"], "raised": repr(e)},
                                 "replay": {"kind": "integrity", "spec": spec, "ops": names, "values": {}}})
                continue
            ip = integrity_problems(net)
            if ip:
                viol.append({"fingerprint": "C17/integrity/%s" % "+".join(names), "detail": {"spec": spec["name"], "what": ip[:3]},
                             "replay": {"kind": "integrity", "spec": spec, "ops": names, "values": {}}})
    D.STATS.obligations += n_ev
    D.STATS.rewriter += n_ev - len(viol)
    return finish_worker(job, H.Exploration(), viol, evaluated=n_ev)


# ---- results that are already in the net follow the relabelling (evaluated) ---------------------------------------------------
CARRY_TOOLS = ("reindex_junctions", "reindex_pipes", "reindex_sinks", "continuous_junctions", "continuous_pipes", "continuous_elements")


def _unsorted_labels(spec):
    """same structure with junction and element labels that are neither contiguous nor ascending in table order"""
    s = copy.deepcopy(spec)
    nj = s["nj"]
    pool = [40, 3, 17, 9, 120, 5, 64, 28]
    s["jl"] = pool[:nj]
    cnt = {}
    for e in s["elems"]:
        k = cnt.get(e["t"], 0)
        cnt[e["t"]] = k + 1
        e["_k"] = k
    n_of = dict(cnt)
    old_pipe = {}
    for e in s["elems"]:
        new = [11, 4, 30, 7, 2, 19, 50, 8][(e["_k"] * 3 + 1) % 8] if n_of[e["t"]] > 1 else 6
        if e["t"] == "pipe":
            old_pipe[e.get("index", e["_k"])] = new
        e["index_new"] = new
    for e in s["elems"]:
        if e["t"] == "valve" and e.get("et") == "pi":
            e["el"] = old_pipe[e["el"]]
        e["index"] = e.pop("index_new")
        e.pop("_k")
    return s


def _carry_problems(spec, tool):
    import pandapipes as pp
    net, _ = nets.build(spec, nets.concrete_valuer({}))
    mode = "sequential" if spec["name"].startswith("w_circ") else "hydraulics"
    ok, err = concrete_pipeflow(net, mode=mode, use_numba=False)
    if not ok:
        return []
    before = {k: net[k].copy() for k in net.keys() if isinstance(k, str) and k.startswith("res_") and hasattr(net[k], "columns") and len(net[k])}
    jl = list(net.junction.index)
    lookups = {}
    if tool == "reindex_junctions":
        lk = dict(zip(jl, jl[1:] + jl[:1]))
        pp.reindex_junctions(net, lk)
        lookups["junction"] = lk
    elif tool == "reindex_pipes":
        pl = list(net.pipe.index)
        lk = dict(zip(pl, [x + 100 for x in pl[1:] + pl[:1]]))
        pp.reindex_elements(net, "pipe", dict(lk))
        lookups["pipe"] = lk
    elif tool == "reindex_sinks":
        if "sink" not in net or not len(net.sink):
            return []
        sl = list(net.sink.index)
        lk = dict(zip(sl, [x + 50 for x in reversed(sl)]))
        pp.reindex_elements(net, "sink", dict(lk))
        lookups["sink"] = lk
    elif tool == "continuous_junctions":
        lookups["junction"] = dict(pp.create_continuous_junction_index(net))
    elif tool == "continuous_pipes":
        old = list(net.pipe.index)
        pp.create_continuous_element_index(net, "pipe")
        lookups["pipe"] = dict(zip(sorted(old), range(len(old))))
    elif tool == "continuous_elements":
        olds = {k_[4:]: list(net[k_[4:]].index) for k_ in before if k_[4:] in net and hasattr(net[k_[4:]], "index")}
        pp.create_continuous_elements_index(net)
        for t, o in olds.items():
            lookups[t] = dict(zip(sorted(o), range(len(o))))
    bad = []
    for key, old_tab in before.items():
        tbl = key[4:]
        lk = lookups.get(tbl, {})
        new_tab = net[key]
        for ix in old_tab.index:
            jx = lk.get(ix, ix)
            if jx not in new_tab.index:
                bad.append("%s: row of %s (now %s) is missing" % (key, ix, jx))
                break
            a, b = old_tab.loc[ix].values.astype(float), new_tab.loc[jx].values.astype(float)
            if not np.allclose(a, b, rtol=1e-12, atol=0, equal_nan=True):
                bad.append("%s: the results of element %s are not those of its new label %s after %s" % (key, ix, jx, tool))
                break
    return bad


def _carry_problems_all_orders(spec, tool):
    """create_continuous_elements_index walks a *set* of table names: its behaviour may depend on the iteration order,
    i.e. on the hash seed of the process; it is therefore run in fresh processes under several hash seeds"""
    if tool != "continuous_elements":
        try:
            return _carry_problems(spec, tool)
        except Exception as e:   # noqa
            return ["%s raised %r" % (tool, e)]
    import json
    import os
    import subprocess
    import sys
    here = os.path.dirname(os.path.dirname(os.path.abspath(__file__)))
    code = ("import sys, json; sys.path.insert(0, %r); from checks import c17\n"
            "spec = json.loads(sys.stdin.read())\n"
            "try:\n    bad = c17._carry_problems(spec, 'continuous_elements')\n"
            "except Exception as e:\n    bad = ['continuous_elements raised %%r' %% (e,)]\n"
            "print('RESULT' + json.dumps(bad))" % here)
    out = []
    for hs in ("1", "2", "3", "4"):
        env = dict(os.environ, PYTHONHASHSEED=hs)
        env.pop("NUMBA_DISABLE_JIT", None)
        r = subprocess.run([sys.executable, "-c", code], input=json.dumps(spec), capture_output=True, text=True, env=env, timeout=600)
        line = [ln for ln in r.stdout.splitlines() if ln.startswith("RESULT")]
        bad = json.loads(line[-1][6:]) if line else ["helper process failed: %s" % r.stderr[-300:]]
        out += ["PYTHONHASHSEED=%s: %s" % (hs, b) for b in bad]
    return out


def carry_worker(job):
    viol = []
    n_ev = 0
    for spec in [s_ for s_ in structures() if s_["name"] == job["spec_name"]]:
        us = _unsorted_labels(spec)
        for tool in CARRY_TOOLS:
            n_ev += 1
            bad = _carry_problems_all_orders(us, tool)
            if bad:
                viol.append({"fingerprint": "C17/carried_results/%s" % tool, "detail": {"spec": spec["name"], "what": bad[:2]},
                             "replay": {"kind": "carry", "spec": us, "tool": tool, "values": {}}})
    D.STATS.obligations += n_ev
    D.STATS.rewriter += n_ev - len(viol)
    return finish_worker(job, H.Exploration(), viol, evaluated=n_ev)


def replay_carry(rs):
    bad = _carry_problems_all_orders(rs["spec"], rs["tool"])
    return bool(bad), {"bad": bad[:3]}


def replay_integrity(rs):
    import pandapipes as pp
    spec = rs["spec"]
    labels = [nets.jlabel(spec, i) for i in range(spec["nj"])]
    net, _ = nets.build(spec, nets.concrete_valuer({}))
    try:
        for nm in rs["ops"]:
            if nm == "drop_junctions":
                pp.drop_junctions(net, [labels[-1]])
            elif nm == "drop_elements_at_junctions":
                pp.drop_elements_at_junctions(net, [labels[1]])
            elif nm == "drop_pipes":
                pp.drop_pipes(net, [net.pipe.index[0]])
            elif nm == "fuse_junctions":
                pp.fuse_junctions(net, labels[0], [labels[1]])
            elif nm == "select_subnet":
                net = pp.select_subnet(net, list(net.junction.index[:max(2, len(net.junction) - 1)]))
            elif nm == "reindex_junctions":
                pp.reindex_junctions(net, {x: x + 7 for x in labels})
    except Exception as e:
        return len(rs["ops"]) == 1, {"raised": repr(e)}
    ip = integrity_problems(net)
    return bool(ip), {"integrity": ip[:4]}


def jobs(tier, seed):
    out = []
    for s in structures():
        mode = "sequential" if s["name"].startswith("w_circ") else "hydraulics"
        for tool in ("reindex_junctions", "reindex_pipes", "reindex_elements_sink", "continuous_junctions", "continuous_elements", "both"):
            for k in ((0, 1) if tier == "quick" else (0, 1, 2, 3)):
                if tool in ("reindex_elements_sink",) and k:
                    continue
                out.append({"name": "relabel/%s/%s/k%d" % (s["name"], tool, k), "kind": "relabel", "spec": s, "tool": tool, "k": k,
                            "lseed": 17 * seed + k, "pfmode": mode})
    for s in two_islands():
        labels = [nets.jlabel(s, i) for i in range(s["nj"])]
        regions = [labels[:3], labels[3:]]
        for ri, reg in enumerate(regions):
            out.append({"name": "subnet/%s/region%d" % (s["name"], ri), "kind": "subnet", "spec": s, "region": reg})
    out.append({"name": "integrity", "kind": "integrity", "seed_": seed})
    for s in structures():
        out.append({"name": "carried_results/%s" % s["name"], "kind": "carry", "spec_name": s["name"]})
    return out


def worker(job):
    return {"relabel": relabel_worker, "subnet": subnet_worker, "integrity": integrity_worker, "carry": carry_worker}[job["kind"]](job)


def replay(rs):
    return {"relabel": replay_relabel, "subnet": replay_subnet, "integrity": replay_integrity, "carry": replay_carry}[rs["kind"]](rs)


def main(argv=None):
    return runner.run(PROP, "checks.c17", jobs, META, argv)
