"""C08 — the solution is independent of initial guesses and of the damping strategy (weaker, stated form).

Global uniqueness of the nonlinear solution for arbitrary networks is not within reach of the solver; decided instead:
  noleak   with every unknown havocked, no start-value symbol (junction.pn_bar in hydraulic stages; junction.tfluid_k in the
           thermal stage / in bidirectional mode) occurs in any assembled residual, Jacobian entry or extracted result
           (free-variable check on the terms of the real code) - the "initialised but never solved" defect class
  unique   single branch between two fixed pressures: from the *real* kernel's residual F(m), F(a) = 0 and F(b) = 0 imply
           a = b (Nikuradse, liquid and gas; nlsat)
  damping  the real update is  new = old - alpha * x  (slack mass: new = old - x) for every unknown, hence for any alpha in
           (0, 1] a state is a fixed point of the damped update iff it is one of the undamped update (x = 0); with the
           automatic strategy a normal return implies alpha = 1 (C05)
"""
import numpy as np
import z3

from svx import harness as H, nets, catalog, stubs, runner, discharge as D
from svx.catalog import E
from svx.sym import Sym, _t, real, ENG, free_vars
from svx.common import finish_worker, is_nan, expected_exc, concrete_pipeflow

PROP = "C08"

META = {
    "level": "model_checking",
    "functions": ["pipeflow.solve_hydraulics/solve_temperature (update lines)", "pf.pipeflow_setup.initialize_pit",
                  "Junction.create_pit_node_entries (start values)", "derivative_toolbox.derivatives_hydraulic_{incomp,comp}_np + calc_lambda "
                  "(single-branch residual)", "all extract_results"],
    "files": ["src/pandapipes/pipeflow.py", "src/pandapipes/component_models/junction_component.py",
              "src/pandapipes/pf/derivative_toolbox.py", "src/pandapipes/pf/derivative_calculation.py"],
    "stubs": stubs.STUB_LIST,
    "assumptions": ["uniqueness is shown for one branch between fixed pressures only (meshes: a theorem about monotone networks, "
                    "not about this code)", "that both damping strategies *reach* the fixed point is outside",
                    "in hydraulics-only and in the hydraulic stage of the sequential mode tfluid_k is an input by design"],
    "bound": "noleak: 6 structures x {hydraulics, sequential, bidirectional} x {numpy, numba py_func}; unique: liquid and gas, 3x3 "
             "regime pairs; damping: 3 structures, alpha symbolic in (0, 1]",
    "outside": ["global uniqueness on meshed networks", "convergence of the iteration"],
    "rule": "noleak: one obligation per term (free variables); unique: per regime pair; damping: per unknown",
}


def _terms_of_run(p, net):
    out = []
    for s in p.systems:
        for (r, c), v in s["entries"].items():
            if isinstance(v, Sym):
                out.append(("%s J[%d,%d]" % (s["mode"], r, c), v.t, bool(s.get("heat"))))
        for r, v in enumerate(s["b"]):
            if isinstance(v, Sym):
                out.append(("%s b[%d]" % (s["mode"], r), v.t, bool(s.get("heat"))))
    for key in [k for k in net.keys() if isinstance(k, str) and k.startswith("res_")]:
        t = net[key]
        if not hasattr(t, "columns"):
            continue
        for col in t.columns:
            for ix in t.index:
                v = t.at[ix, col]
                if isinstance(v, Sym):
                    out.append(("%s.%s[%s]" % (key, col, ix), v.t, col in ("t_k", "t_from_k", "t_to_k", "t_outlet_k", "deltat_k", "qext_w")))
    return out


def noleak_worker(job):
    import pandapipes as pp
    spec, mode, numba = job["spec"], job["pfmode"], bool(job["numba"])
    patched, ass = H.install(numba_pyfunc=numba)
    is_gas = spec["fluid"] != "water"

    def run():
        net, names = nets.build(spec, nets.sym_valuer(), fluid=stubs.make_sym_fluid(is_gas))
        pp.pipeflow(net, mode=mode, use_numba=numba)
        return net
    _, names = nets.build(spec, nets.sym_valuer())
    A = list(ass) + nets.admissibility(names)
    H.CTX.fixed = set()
    ex0 = H.explore_witnesses(run, [H.Witness(dict(names))], A)
    p0 = ex0.paths[0]
    if p0.exc is not None and not p0.systems:
        return finish_worker(job, ex0, [], errors=[] if expected_exc(p0.exc) else ["raised %r" % (p0.exc,)])
    H.CTX.fixed = H.discover_fixed(p0.systems)
    ex = H.explore_witnesses(run, [H.Witness(dict(names)), H.Witness(dict(names), kinds={"m": -0.6})], A)
    viol = []
    n = 0
    for pi, p in enumerate(ex.paths):
        if p.exc is not None:
            continue
        # mode="sequential": the hydraulic stage takes tfluid_k as an input by design, so the mass flows it hands to the
        # thermal stage may depend on it (prescribed flows of (qext, deltat/treturn) consumers do, through cp(tfluid_k));
        # the thermal stage is examined *given* these mass flows: each is replaced by a fresh constant
        subs = []
        if mode == "sequential":
            from pandapipes.idx_branch import MDOTINIT
            for k_, mv in enumerate(p.value["_pit"]["branch"][:, MDOTINIT]):
                if isinstance(mv, Sym) and any(v.startswith("junction.tfluid_k[") for v in free_vars(mv.t)):
                    subs.append((mv.t, z3.Real("m_hyd_given_%d" % k_)))
                    subs.append((z3.simplify(mv.t), z3.Real("m_hyd_given_%d" % k_)))
        for lab, t, thermal in _terms_of_run(p, p.value):
            n += 1
            if subs and thermal:
                t = z3.substitute(t, *subs)
            fv = free_vars(t)
            if any(v.startswith(("junction.pn_bar[", "junction.tfluid_k[")) for v in fv):
                fv = free_vars(z3.simplify(t))        # occurrences like 0 * pn_bar (averaging with count 0) are no dependence
            leak = [v for v in fv if v.startswith("junction.pn_bar[")]
            if mode == "bidirectional" or (mode == "sequential" and thermal):
                # fixed-temperature junctions (feeders) legitimately carry t_k of their feeder, never tfluid_k of the junction
                leak += [v for v in fv if v.startswith("junction.tfluid_k[")]
            if leak and sum(1 for v in viol) < 4:
                viol.append({"fingerprint": "C08/noleak/%s" % leak[0].split("[")[0], "detail": {"job": job["name"], "term": lab, "symbol": leak[0]},
                             "replay": {"kind": "noleak", "spec": spec, "pfmode": mode, "numba": numba, "symbol": leak[0], "values": {}}})
    D.STATS.obligations += n
    D.STATS.rewriter += n - len(viol)
    return finish_worker(job, ex, viol)


def replay_noleak(rs):
    """two converged real runs that differ only in the start value named by the leaking symbol"""
    spec, mode, numba = rs["spec"], rs.get("pfmode") or "hydraulics", bool(rs.get("numba"))
    sym = rs["symbol"]
    for tol in (1e-10, 1e-8, 1e-6):          # the tightest tolerances at which both runs converge
        res = []
        for delta in (0.0, 1.0):
            net, names = nets.build(spec, nets.concrete_valuer({}))
            col = sym.split(".", 1)[1].split("[")[0]
            ix = int(sym.split("[")[1][:-1])
            net.junction.at[ix, col] = float(net.junction.at[ix, col]) + delta * (0.7 if col == "pn_bar" else 9.0)
            ok, err = concrete_pipeflow(net, mode=mode, use_numba=numba, tol_p=tol, tol_m=tol, tol_res=tol * 100, tol_T=tol,
                                        max_iter_hyd=300, max_iter_therm=300, max_iter_bidirect=300)
            res.append((net, ok, err))
        (na, oka, ea), (nb, okb, eb) = res
        if oka and okb:
            break
    if not (oka and okb):
        return False, {"not both converged": [ea, eb]}
    from svx import equiv
    skip = () if mode == "bidirectional" else ()
    worst, where = equiv.max_result_gap(na, nb)
    if mode == "sequential" and "tfluid" in sym:
        # the hydraulic stage takes tfluid_k as an input by design: only thermal columns count
        worst, where = 0.0, None
        for lab, x, y in equiv.default_cells(na, nb):
            colname = lab.split(".", 1)[1].split("[")[0]
            if colname in ("t_k", "t_from_k", "t_to_k", "t_outlet_k") and not (np.isnan(x) or np.isnan(y)):
                g = abs(x - y) / (1 + abs(x))
                if g > worst:
                    worst, where = g, lab
    return worst > 1e-6, {"worst": worst, "where": where}


# ---- single-branch uniqueness ------------------------------------------------------------------------------------------------------
def unique_worker(job):
    import importlib
    from pandapipes.idx_branch import branch_cols, MDOTINIT, LENGTH, D as DC, AREA, K as KC, LOSS_COEFFICIENT as LC, PL, LAMBDA, FROM_NODE, TO_NODE, TOUTINIT
    from pandapipes.idx_node import node_cols, TINIT
    patched, ass = H.install(numba_pyfunc=False)
    dc = importlib.import_module("pandapipes.pf.derivative_calculation")
    tb = importlib.import_module("pandapipes.pf.derivative_toolbox")
    gas = job["gas"]
    L, d, k, zeta, eta, rho, pf_, pt_, dh = (real(n) for n in ("L", "d", "k", "zeta", "eta", "rho", "pf", "pt", "dh"))
    lamn = real("lam_nik")         # the Nikuradse term: a positive constant of the branch
    A = list(ass) + [L.t > 0, d.t > 0, k.t > 0, zeta.t >= 0, eta.t > 0, rho.t > 0, pf_.t > 0, pt_.t > 0, lamn.t > 0]
    area = d * d * stubs.snp.pi / 4

    def F(m):
        """residual of the real kernel for mass flow m (friction factor: real laminar term + constant Nikuradse term)"""
        bp = np.empty((1, branch_cols), dtype=object)
        bp[...] = 0.0
        marr = np.array([m], dtype=object)
        re, lam_lam, _nik = tb.calc_lambda_nikuradse_incomp_np(marr, np.array([d], dtype=object), np.array([k], dtype=object),
                                                               np.array([eta], dtype=object), np.array([area], dtype=object))
        lam = lam_lam + np.array([lamn], dtype=object)
        bp[0, MDOTINIT], bp[0, LENGTH], bp[0, DC], bp[0, AREA], bp[0, LC], bp[0, LAMBDA] = m, L, d, area, zeta, lam[0]
        der = np.array([0.0], dtype=object)
        if not gas:
            out = tb.derivatives_hydraulic_incomp_np(bp, der, np.array([pf_], dtype=object), np.array([pt_], dtype=object),
                                                     np.array([dh], dtype=object), np.array([rho], dtype=object))
        else:
            npit = np.empty((2, node_cols), dtype=object)
            npit[...] = 0.0
            npit[0, TINIT] = real("T0")
            bp[0, TOUTINIT] = real("T1")
            bp[0, FROM_NODE], bp[0, TO_NODE] = 0, 1
            out = tb.derivatives_hydraulic_comp_np(npit, bp, lam, der, np.array([pf_], dtype=object), np.array([pt_], dtype=object),
                                                   np.array([dh], dtype=object), np.array([real("Kc")], dtype=object), der, der,
                                                   np.array([rho], dtype=object), np.array([real("rhon")], dtype=object))
        return out[0][0]
    if gas:
        A += [z3.Real("T0") > 0, z3.Real("T1") > 0, z3.Real("Kc") > 0, z3.Real("rhon") > 0]
    a, b = real("ma"), real("mb")
    viol = []
    exa = H.explore(lambda: F(a), A, max_paths=16, feas_timeout_ms=1500)
    exb = H.explore(lambda: F(b), A, max_paths=16, feas_timeout_ms=1500)
    n_pairs = 0
    for p1 in exa.paths:
        for p2 in exb.paths:
            if p1.exc is not None or p2.exc is not None:
                return finish_worker(job, exa, viol, errors=["kernel raised %r / %r" % (p1.exc, p2.exc)])
            hy = A + p1.path + p2.path + p1.defined + p2.defined + [_t(p1.value) == 0, _t(p2.value) == 0]
            r0, _ = D.reachable(hy, timeout_ms=5000)
            if r0 == 'unsat':
                D.STATS.reach_failed -= 1
                continue
            n_pairs += 1
            r, m, how = D.check(hy, a.t == b.t, sample="uniqueness %s regimes %d" % ("gas" if gas else "liquid", n_pairs), timeout_ms=60000)
            if r == 'sat':
                viol.append({"fingerprint": "C08/unique", "detail": {"gas": gas, "model": {k_: v for k_, v in (m or {}).items() if isinstance(v, float)}},
                             "replay": {"kind": "unique", "gas": gas, "values": {k_: v for k_, v in (m or {}).items() if isinstance(v, float)}}})
            elif r == 'unknown':
                job.setdefault("_inconclusive", []).append("uniqueness regime pair %d" % n_pairs)
    exa.paths += exb.paths
    if n_pairs == 0:
        return finish_worker(job, exa, viol, errors=["no satisfiable regime pair (vacuous)"])
    return finish_worker(job, exa, viol)


def replay_unique(rs):
    """two different mass flows that both solve the single-branch equation for the model's parameters (float evaluation of the
    real kernel)"""
    import importlib
    tb = importlib.import_module("pandapipes.pf.derivative_toolbox")
    from pandapipes.idx_branch import branch_cols, MDOTINIT, LENGTH, D as DC, AREA, LOSS_COEFFICIENT as LC, LAMBDA
    v = rs.get("values", {})
    if rs.get("gas") or "ma" not in v or "mb" not in v:
        return False, {"note": "no float replay"}
    g = lambda n, dflt: float(v.get(n, dflt))       # noqa
    d, eta = g("d", 0.1), g("eta", 1e-3)
    area = d * d * np.pi / 4

    def F(m):
        bp = np.zeros((1, branch_cols))
        re = abs(m) * d / (eta * area)
        lam = (64 / re if re > 1e-8 else 0.0) + g("lam_nik", 0.02)
        bp[0, MDOTINIT], bp[0, LENGTH], bp[0, DC], bp[0, AREA], bp[0, LC], bp[0, LAMBDA] = m, g("L", 100.0), d, area, g("zeta", 0.0), lam
        return tb.derivatives_hydraulic_incomp_np(bp, np.zeros(1), np.array([g("pf", 5.0)]), np.array([g("pt", 4.0)]),
                                                  np.array([g("dh", 0.0)]), np.array([g("rho", 1000.0)]))[0][0]
    fa, fb = F(v["ma"]), F(v["mb"])
    return abs(fa) < 1e-9 and abs(fb) < 1e-9 and abs(v["ma"] - v["mb"]) > 1e-9, {"F(a)": fa, "F(b)": fb}


# ---- damping ---------------------------------------------------------------------------------------------------------------------------
def damping_worker(job):
    import pandapipes as pp
    spec, mode = job["spec"], job["pfmode"]
    patched, ass = H.install(numba_pyfunc=False)
    is_gas = spec["fluid"] != "water"
    alpha = real("alpha")

    def run():
        net, names = nets.build(spec, nets.sym_valuer(), fluid=stubs.make_sym_fluid(is_gas))
        pp.pipeflow(net, mode=mode, use_numba=False, alpha=alpha)
        return net
    _, names = nets.build(spec, nets.sym_valuer())
    A = list(ass) + nets.admissibility(names) + [alpha.t > 0, alpha.t <= 1]
    H.CTX.fixed = set()
    ex0 = H.explore_witnesses(run, [H.Witness(dict(names, alpha=0.5))], A)
    p0 = ex0.paths[0]
    if p0.exc is not None:
        return finish_worker(job, ex0, [], errors=["raised %r" % (p0.exc,)])
    H.CTX.fixed = H.discover_fixed(p0.systems)
    ex = H.explore_witnesses(run, [H.Witness(dict(names, alpha=0.5))], A)
    p = ex.paths[0]
    viol = []
    if p.exc is not None:
        return finish_worker(job, ex, [], errors=["raised %r" % (p.exc,)])
    from svx.thermal import ThermalState
    st = ThermalState(p.value, p)
    for s in p.systems:
        xn = s.get("xnames")
        if xn is None:
            continue
        for nm in xn:
            kind, ident = nm.split("[", 1)[1][:-1].split("|")
            x = z3.Real(nm)
            if kind == "msl":
                continue
            cur = {"p": st.P, "m": st.m, "T": st.T, "Tout": st.Tout}[kind].get(ident)
            old = p.havoc.get((kind, ident))
            if cur is None or old is None:
                continue
            goal = _t(cur) == z3.Real(old[1]) - alpha.t * x
            r, m, how = D.check(A, goal, sample="%s: new %s = old - alpha dx" % (job["name"], nm), timeout_ms=5000)
            if r == 'sat':
                viol.append({"fingerprint": "C08/damping/%s" % kind, "detail": {"job": job["name"], "unknown": nm},
                             "replay": {"kind": "damping", "spec": spec, "pfmode": mode, "values": {}}})
            elif r == 'unknown':
                job.setdefault("_inconclusive", []).append(nm)
    # lemma: alpha > 0  =>  (old - alpha x = old  <=>  x = 0)
    o, x, al = z3.Reals("o x al")
    r, m, how = D.check([al > 0], (o - al * x == o) == (x == 0), sample="lemma fixed point independent of alpha", timeout_ms=5000)
    if r != 'unsat':
        job.setdefault("_inconclusive", []).append("lemma")
    return finish_worker(job, ex, viol)


def replay_damping(rs):
    """converged results with alpha = 1 and alpha = 0.6 agree"""
    spec, mode = rs["spec"], rs.get("pfmode") or "hydraulics"
    res = []
    for al in (1.0, 0.6):
        net, _ = nets.build(spec, nets.concrete_valuer({}))
        ok, err = concrete_pipeflow(net, mode=mode, use_numba=False, alpha=al, tol_p=1e-10, tol_m=1e-10, tol_res=1e-10, tol_T=1e-10,
                                    max_iter_hyd=500, max_iter_therm=500)
        res.append((net, ok, err))
    if not (res[0][1] and res[1][1]):
        return False, {"not both converged": [res[0][2], res[1][2]]}
    from svx import equiv
    worst, where = equiv.max_result_gap(res[0][0], res[1][0])
    return worst > 1e-6, {"worst": worst, "where": where}


def jobs(tier, seed):
    out = []
    structs = [(catalog.w_line3(), ["hydraulics"]), (catalog.w_components(), ["hydraulics"]), (catalog.g_components(), ["hydraulics"]),
               (catalog.g_mesh(), ["hydraulics"]), (catalog.w_circ_loop(), ["sequential", "bidirectional"]),
               (catalog.w_circ_mass(), ["sequential", "bidirectional"])]
    # labels that are not table positions (start values must not reach fixed entries through a label / position mix-up)
    structs += [(catalog.relabelled(catalog.w_components(), [40, 3, 17, 9, 120, 5], order=[3, 0, 5, 1, 4, 2]), ["hydraulics"]),
                (catalog.relabelled(catalog.g_components(), [8, 2, 31, 11, 4]), ["hydraulics"]),
                (catalog.relabelled({"name": "g_pc", "fluid": "gas", "nj": 4, "elems": [
                    catalog.E("ext_grid", j=0), catalog.E("pipe", f=0, to=1), catalog.E("press_control", f=1, to=2, cj=2, p=3.5),
                    catalog.E("pipe", f=2, to=3), catalog.E("sink", j=3)]}, [30, 7, 2, 11]), ["hydraulics"])]
    # pressure controller next to parts that drop out of the hydraulic calculation (out-of-service junction, section behind
    # a closed valve): the reduced lookups must still address the controlled junction
    structs += [({"name": "w_pc_reduced", "fluid": "water", "nj": 6, "jis": [True, False, True, True, True, True], "elems": [
        catalog.E("ext_grid", j=0), catalog.E("pipe", f=0, to=2), catalog.E("press_control", f=2, to=3, cj=3, p=3.5),
        catalog.E("pipe", f=3, to=4), catalog.E("valve", j=4, el=5, et="ju", opened=False), catalog.E("sink", j=4), catalog.E("sink", j=5),
        catalog.E("pipe", f=0, to=1, in_service=False)]}, ["hydraulics"]),
                ({"name": "g_pc_reduced", "fluid": "gas", "nj": 5, "jis": [False, True, True, True, True], "jl": [4, 9, 2, 7, 1], "elems": [
                    catalog.E("ext_grid", j=1), catalog.E("pipe", f=1, to=2), catalog.E("press_control", f=2, to=3, cj=3, p=3.0),
                    catalog.E("pipe", f=3, to=4), catalog.E("sink", j=4), catalog.E("pipe", f=0, to=1, in_service=False)]}, ["hydraulics"])]
    # a second pressure zone that has a pressure feeder but no temperature feeder (thermal results there are no solution)
    structs += [({"name": "w_two_zones", "fluid": "water", "nj": 5, "elems": [
        catalog.E("ext_grid", j=0, type="pt"), catalog.E("pipe", f=0, to=1, u=5.0), catalog.E("pipe", f=1, to=2, u=5.0), catalog.E("sink", j=2),
        catalog.E("ext_grid", j=3, type="p"), catalog.E("pipe", f=3, to=4, u=5.0), catalog.E("sink", j=4)]}, ["sequential", "bidirectional"])]
    # every heat-consumer specification mode, exchangers, exchangers entered against the flow
    from checks.c11 import specs as c11_specs
    structs += [(s_, ["sequential", "bidirectional"]) for s_ in c11_specs()]
    if tier == "thorough":
        import random
        rng = random.Random(8000 + seed)
        structs += [(catalog.random_spec(rng, name="rand%d_s%d" % (i, seed)), ["hydraulics"]) for i in range(30)]
        structs += [(catalog.random_heat_spec(rng, name="rand_heat%d_s%d" % (i, seed)), ["sequential", "bidirectional"]) for i in range(10)]
        structs += [(catalog.random_loop_spec(rng, name="rand_loop%d_s%d" % (i, seed)), ["sequential", "bidirectional"]) for i in range(10)]
    for s, modes in structs:
        for m in modes:
            for numba in (False, True):
                if s["name"] in ("qe_mf", "qe_dt", "hex", "series", "series_rev", "hex_rev") and numba and tier == "quick":
                    continue
                out.append({"name": "noleak/%s/%s/%s" % (s["name"], m, "numba" if numba else "numpy"), "kind": "noleak", "spec": s,
                            "pfmode": m, "numba": numba})
    out.append({"name": "unique/liquid", "kind": "unique", "gas": False})
    out.append({"name": "unique/gas", "kind": "unique", "gas": True})
    for s, m in ((catalog.w_line3(), "hydraulics"), (catalog.g_line3(), "hydraulics"), (catalog.w_circ_loop(), "sequential")):
        out.append({"name": "damping/%s/%s" % (s["name"], m), "kind": "damping", "spec": s, "pfmode": m})
    return out


def worker(job):
    return {"noleak": noleak_worker, "unique": unique_worker, "damping": damping_worker}[job["kind"]](job)


def replay(rs):
    return {"noleak": replay_noleak, "unique": replay_unique, "damping": replay_damping}[rs["kind"]](rs)


def main(argv=None):
    return runner.run(PROP, "checks.c08", jobs, META, argv)
