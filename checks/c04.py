"""C04 — exactly the supplied part of the network is calculated, unaffected by the rest.

Per enumerated flag pattern (in_service / opened / control_active on junctions, branches, valves,
feeders):
  A (pattern, by evaluation): an independent reachability over the *tables* gives the supplied set;
     the NaN pattern of every result table of the symbolic run must match it, and a net without any
     supplied junction must raise.
  B (equivalence, solver): the same net with every unsupplied / out-of-service element deleted is
     executed symbolically too; Newton systems and all results are equal for all values (z3)."""
import copy
import itertools
import random

import numpy as np

from svx import harness as H, nets, catalog, stubs, runner, equiv, discharge as D
from svx.catalog import E
from svx.common import concrete_pipeflow, finish_worker, is_nan, expected_exc

PROP = "C04"

META = {
    "level": "model_checking",
    "functions": ["pf.pipeflow_setup.identify_active_nodes_branches/check_connectivity/perform_connectivity_search/_connectivity",
                  "reduce_pit/reduce_lookups", "result_extraction.extract_results_active_pit", "all extract_results",
                  "Valve (et='pi') node insertion", "build_system_matrix"],
    "files": ["src/pandapipes/pf/pipeflow_setup.py", "src/pandapipes/pf/result_extraction.py",
              "src/pandapipes/component_models/valve_component.py"],
    "stubs": stubs.STUB_LIST,
    "assumptions": ["flag patterns are enumerated (structure); only *consistent* patterns: a branch attached to an "
                    "out-of-service junction is out of service itself", "the supplied-set oracle is an independent BFS over the "
                    "element tables; this part is decided by evaluation, not by the solver (labelled so)",
                    "values: all numeric inputs symbolic in the equivalence part"],
    "bound": {"quick": "3 base topologies (J<=6, incl. junction-pipe valve, two feeders, circulation pump) x 14 seeded flag "
                       "patterns on <=7 flags + the all-off pattern; hydraulic and sequential",
              "thorough": "all 2^k patterns, k<=7, on 4 base topologies"},
    "outside": ["inconsistent flag patterns", "larger graphs"],
    "rule": "per pattern: NaN-pattern obligations (evaluated) + system/result equalities (solver)",
}


def base_specs():
    S = []
    S.append({"name": "w_tree", "fluid": "water", "nj": 6, "jh": [0, 1, 2, 0, 3, 1], "elems": [
        E("ext_grid", j=0, index=0), E("pipe", f=0, to=1, index=0), E("pipe", f=1, to=2, sections=2, index=1),
        E("valve", j=1, el=3, et="ju", index=0), E("pipe", f=3, to=4, index=2), E("flow_control", f=2, to=4, index=0),
        E("pipe", f=4, to=5, index=3), E("sink", j=2, index=0), E("sink", j=4, index=1), E("sink", j=5, index=2),
        E("source", j=3, index=0)],
        "flags": [("elem", 1), ("elem", 2), ("elem", 3, "opened"), ("elem", 4), ("elem", 5), ("elem", 6), ("junction", 5)]})
    S.append({"name": "g_two_feeders", "fluid": "gas", "nj": 5, "elems": [
        E("ext_grid", j=0, index=0), E("ext_grid", j=4, type="p", index=1), E("pipe", f=0, to=1, index=0),
        E("pipe", f=1, to=2, index=1), E("pipe", f=2, to=3, index=2), E("pipe", f=3, to=4, index=3),
        E("valve", j=1, el=3, et="ju", index=0), E("sink", j=2, index=0), E("sink", j=3, index=1), E("sink", j=1, index=2)],
        "flags": [("elem", 0), ("elem", 1), ("elem", 2), ("elem", 3), ("elem", 4), ("elem", 5), ("elem", 6, "opened")]})
    S.append({"name": "w_pi_valve", "fluid": "water", "nj": 4, "elems": [
        E("ext_grid", j=0, index=0), E("pipe", f=0, to=1, index=4), E("pipe", f=1, to=2, index=1),
        E("valve", j=1, el=1, et="pi", index=0), E("pipe", f=1, to=3, index=2), E("valve", j=2, el=3, et="ju", index=1),
        E("sink", j=2, index=0), E("sink", j=3, index=1), E("sink", j=1, index=2)],
        "flags": [("elem", 1), ("elem", 2), ("elem", 3, "opened"), ("elem", 4), ("elem", 5, "opened"), ("elem", 6), ("junction", 3)]})
    S.append({"name": "w_loop_seq", "fluid": "water", "nj": 5, "mode": "sequential", "elems": [
        E("circ_pump_pressure", ret=3, flow=0, index=0), E("pipe", f=0, to=1, u=5.0, index=0), E("pipe", f=2, to=3, u=5.0, index=1),
        E("heat_consumer", f=1, to=2, mdot=1.0, qext_w=20000.0, index=0),
        E("heat_consumer", f=1, to=2, mdot=0.5, qext_w=10000.0, index=1), E("pipe", f=1, to=4, u=5.0, index=2),
        E("flow_control", f=1, to=2, index=0)],
        "flags": [("elem", 3), ("elem", 4), ("elem", 5), ("elem", 6), ("junction", 4)]})
    S.append({"name": "w_pumps", "fluid": "water", "nj": 6, "elems": [
        E("ext_grid", j=0, index=0), E("pump", f=0, to=1, std_type="P1", index=0), E("pump", f=0, to=2, std_type="P3", index=1),
        E("pipe", f=1, to=3, index=0), E("pipe", f=2, to=3, index=1), E("pump", f=4, to=5, std_type="P2", index=2),
        E("sink", j=3, index=0), E("sink", j=5, index=1), E("compressor", f=3, to=4, index=0, in_service=False)],
        "flags": [("elem", 1), ("elem", 2), ("elem", 3), ("elem", 4)]})
    S.append({"name": "w_two_loops", "fluid": "water", "nj": 6, "mode": "sequential", "elems": [
        E("circ_pump_mass", ret=2, flow=0, index=0), E("circ_pump_pressure", ret=5, flow=3, index=0),
        E("pipe", f=0, to=1, u=4.0, index=0), E("heat_exchanger", f=1, to=2, index=0), E("pipe", f=3, to=4, u=4.0, index=1),
        E("heat_consumer", f=4, to=5, mdot=0.7, qext_w=9000.0, index=0), E("press_control", f=1, to=2, cj=2, index=0)],
        "flags": [("elem", 0), ("elem", 1), ("elem", 3), ("elem", 6)]})
    # two pressure zones in a thermal calculation: zone B has a pressure feeder but no temperature feeder
    S.append({"name": "w_two_zones_seq", "fluid": "water", "nj": 6, "mode": "sequential", "elems": [
        E("ext_grid", j=0, type="pt", index=0), E("pipe", f=0, to=1, u=5.0, sections=2, index=0), E("pipe", f=1, to=2, u=5.0, index=1),
        E("sink", j=2, index=0), E("ext_grid", j=3, type="p", index=1), E("pipe", f=3, to=4, u=5.0, index=2),
        E("pipe", f=4, to=5, u=5.0, sections=2, index=3), E("sink", j=5, index=1), E("sink", j=4, index=2)],
        "flags": [("elem", 2), ("elem", 6), ("elem", 4)]})
    # stand-by feeders: an out-of-service circulation pump next to a working one of the same kind
    S.append({"name": "w_circ_standby", "fluid": "water", "nj": 4, "mode": "sequential", "elems": [
        E("circ_pump_pressure", ret=3, flow=0, index=0), E("circ_pump_pressure", ret=3, flow=0, index=1, t_flow=345.0),
        E("pipe", f=0, to=1, u=5.0, index=0), E("pipe", f=2, to=3, u=5.0, index=1),
        E("heat_consumer", f=1, to=2, mdot=1.0, qext_w=20000.0, index=0), E("heat_consumer", f=1, to=2, mdot=0.5, qext_w=10000.0, index=1)],
        "flags": [("elem", 0), ("elem", 1), ("elem", 5)]})
    S.append({"name": "w_circ_mass_standby", "fluid": "water", "nj": 4, "mode": "sequential", "elems": [
        E("circ_pump_mass", ret=3, flow=0, index=0), E("circ_pump_mass", ret=3, flow=0, index=1, mdot=0.9),
        E("pipe", f=0, to=1, u=5.0, index=0), E("pipe", f=2, to=3, u=5.0, index=1),
        E("heat_exchanger", f=1, to=2, index=0), E("valve", j=1, el=2, et="ju", index=0)],
        "flags": [("elem", 0), ("elem", 1), ("elem", 5, "opened")]})
    return S


def apply_pattern(spec, bits):
    s = copy.deepcopy(spec)
    flags = s.pop("flags")
    s["jis"] = [True] * s["nj"]
    for (f, b) in zip(flags, bits):
        if b:
            continue
        if f[0] == "junction":
            s["jis"][f[1]] = False
        else:
            e = s["elems"][f[1]]
            key = f[2] if len(f) > 2 else "in_service"
            e[key] = False
    # consistency: branches at an out-of-service junction are out of service
    for e in s["elems"]:
        js = [e[k] for k in ("f", "to", "j", "ret", "flow") if k in e]
        if e["t"] == "valve" and e.get("et", "ju") == "ju":
            js.append(e["el"])
        if any(not s["jis"][j] for j in js):
            if e["t"] == "valve":
                e["opened"] = False
            else:
                e["in_service"] = False
    return s


BR = ("pipe", "pump", "circ_pump_pressure", "circ_pump_mass", "compressor", "press_control", "flow_control",
      "heat_exchanger", "heat_consumer")


def supplied_oracle(s):
    """independent reachability over the element list: (supplied junction positions, live element positions)"""
    nj = s["nj"]
    jis = s["jis"]
    feeders = set()
    for e in s["elems"]:
        if e["t"] == "ext_grid" and e.get("in_service", True) and e.get("type", "pt") in ("p", "pt") and jis[e["j"]]:
            feeders.add(e["j"])
        if e["t"] in ("circ_pump_pressure", "circ_pump_mass") and e.get("in_service", True) and jis[e["flow"]]:
            feeders.add(e["flow"])
    adj = {j: set() for j in range(nj)}
    pipes = {e["index"]: e for e in s["elems"] if e["t"] == "pipe"}
    # junction-pipe valves: the pipe end at the valve's junction is connected only through the valve
    pv = {}
    for e in s["elems"]:
        if e["t"] == "valve" and e.get("et") == "pi":
            pv.setdefault((e["el"], e["j"]), []).append(e.get("opened", True))
    for e in s["elems"]:
        t = e["t"]
        if t in BR and e.get("in_service", True):
            a, b = (e["f"], e["to"]) if "f" in e else (e["ret"], e["flow"])
            if t == "pipe":
                blocked = False
                for end in (a, b):
                    if (e["index"], end) in pv and not any(pv[(e["index"], end)]):
                        blocked = True
                if blocked:
                    continue
            # pressure-connecting? an active flow controller and a heat consumer prescribe the mass
            # flow and do not couple the pressures of their junctions; a pressure controller connects
            # from -> to only
            if t == "heat_consumer" or (t == "flow_control" and e.get("control_active", True)):
                continue
            if jis[a] and jis[b]:
                adj[a].add(b)
                if t != "press_control":
                    adj[b].add(a)
        if t == "valve" and e.get("et", "ju") == "ju" and e.get("opened", True):
            a, b = e["j"], e["el"]
            if jis[a] and jis[b]:
                adj[a].add(b)
                adj[b].add(a)
    seen = set(feeders)
    stack = list(feeders)
    while stack:
        x = stack.pop()
        for y in adj[x]:
            if y not in seen:
                seen.add(y)
                stack.append(y)
    return seen, pv


def reduced_spec(s, supplied, pv):
    """description B: only in-service / open elements whose junctions are supplied.  A junction-pipe
    valve is part of its pipe's attachment: it stays (open or closed) as long as its pipe row stays,
    and its pipe row stays (out of service if dead) as long as an alive valve refers to it."""
    b = copy.deepcopy(s)
    alive, keep = set(), []
    for k, e in enumerate(b["elems"]):
        t = e["t"]
        js = [e[q] for q in ("f", "to", "j", "ret", "flow") if q in e]
        if t == "valve" and e.get("et", "ju") == "ju":
            js.append(e["el"])
        if e.get("in_service", True) and e.get("opened", True) and all(j in supplied for j in js):
            alive.add(k)
    pipes_alive = {b["elems"][k]["index"] for k in alive if b["elems"][k]["t"] == "pipe"}
    dead = set()
    for k, e in enumerate(b["elems"]):
        if e["t"] == "valve" and e.get("et") == "pi":
            if k in alive or e["el"] in pipes_alive:
                keep.append(e)
                if k not in alive:
                    dead.add(("valve", e["index"]))
                if e["el"] not in pipes_alive:
                    pe = copy.deepcopy(next(p for p in b["elems"] if p["t"] == "pipe" and p["index"] == e["el"]))
                    if ("pipe", pe["index"]) not in dead:
                        pe["in_service"] = False
                        keep.insert(0, pe)
                        dead.add(("pipe", pe["index"]))
        elif k in alive:
            keep.append(e)
    b["elems"] = sorted(keep, key=lambda e: (1 if (e["t"] == "valve" and e.get("et") == "pi") else 0))
    b["_dead"] = sorted(dead)
    return b


def jobs(tier, seed):
    out = []
    rng = random.Random(4000 + seed)
    bases = base_specs()
    if tier == "quick":
        bases = bases[:9]
    for s in bases:
        k = len(s["flags"])
        allp = list(itertools.product([True, False], repeat=k))
        if tier == "quick":
            pats = [allp[0], allp[-1]] + rng.sample(allp[1:-1], min(12 if s["name"] != "w_loop_seq" else 5, len(allp) - 2))
        else:
            pats = allp
        for bits in pats:
            if s["name"] == "w_pumps" and not ((bits[0] and bits[2]) or (bits[1] and bits[3])):
                continue        # the sink at junction 3 needs one complete supply path
            if s["name"] == "w_two_loops" and bits[0] and not (bits[2] or bits[3]):
                continue        # first loop without any path for the prescribed flow (ill-posed)
            if s["name"] in ("w_circ_standby", "w_circ_mass_standby") and bits[0] == bits[1]:
                continue        # exactly one of the two pumps works (two working ones over-determine the loop)
            if s["name"] == "w_loop_seq" and not (bits[0] or bits[1] or bits[3]):
                continue        # no consumer at all: the pump's flow is undetermined (ill-posed, not a C04 case)
            out.append({"name": "%s/%s" % (s["name"], "".join("1" if b else "0" for b in bits)), "spec": s, "bits": list(bits),
                        "numba": False, "pfmode": s.get("mode", "hydraulics")})
    return out


def worker(job):
    H.install(numba_pyfunc=False)
    s = apply_pattern(job["spec"], job["bits"])
    s.pop("mode", None)
    supplied, pv = supplied_oracle(s)
    b = reduced_spec(s, supplied, pv)
    kw = dict(mode=job["pfmode"], use_numba=False)
    dead = {tuple(d) for d in b.pop("_dead", [])}
    present = {(e["t"], e["index"]) for e in b["elems"]} - dead
    labels = {nets.jlabel(s, j) for j in supplied}
    viol = []

    def pattern_viol(what):
        viol.append({"fingerprint": "C04/pattern", "detail": {"job": job["name"], "what": what},
                     "replay": {"kind": "pattern", "spec": job["spec"], "bits": job["bits"], "pfmode": job["pfmode"],
                                "what": what, "values": {}}})

    def cells(neta, netb):
        out = []
        ev = 0
        for key in sorted(k for k in neta.keys() if isinstance(k, str) and k.startswith("res_")):
            ta = neta[key]
            if not hasattr(ta, "columns"):
                continue
            tbl = key[4:]
            for ix in ta.index:
                for col in ta.columns:
                    x = ta.at[ix, col]
                    if tbl == "junction":
                        # oracle A: pressure result iff supplied
                        if col == "p_bar":
                            ev += 1
                            if (not is_nan(x)) != (ix in labels):
                                pattern_viol("junction %s: p_bar %s but oracle says supplied=%s" % (
                                    ix, "reported" if not is_nan(x) else "NaN", ix in labels))
                        if key in netb and ix in netb[key].index:
                            out.append(("%s.%s[%s]" % (key, col, ix), x, netb[key].at[ix, col]))
                    elif (tbl, ix) in present:
                        if col in ("mdot_from_kg_per_s", "mdot_kg_per_s", "p_from_bar"):
                            # oracle B: an in-service element between supplied junctions receives (hydraulic) results
                            ev += 1
                            if is_nan(x):
                                pattern_viol("%s %s is in service between supplied junctions but reports no %s" % (tbl, ix, col))
                        if key in netb and col in netb[key].columns and ix in netb[key].index:
                            out.append(("%s.%s[%s]" % (key, col, ix), x, netb[key].at[ix, col]))
                    else:
                        ev += 1
                        if not is_nan(x):
                            pattern_viol("%s %s is disabled / unsupplied but reports %s" % (tbl, ix, col))
        job["_evaluated"] = job.get("_evaluated", 0) + ev
        return out

    if not supplied:
        # nothing is supplied: the calculation must fail rather than return
        import pandapipes as pp
        from svx.sym import ENG
        ENG.reset_all()
        net, names = nets.build(s, nets.sym_valuer(), fluid=stubs.make_sym_fluid(s["fluid"] != "water"))
        ex = H.explore_witnesses(lambda: pp.pipeflow(net, **kw), [H.Witness(dict(names))], [])
        p = ex.paths[0]
        if p.exc is None or not expected_exc(p.exc):
            pattern_viol("no supplied junction but pipeflow returned (%r)" % (p.exc,))
        r = finish_worker(job, ex, viol, evaluated=1)
        return r
    ra, rb = equiv.RunSpec(s, kw), equiv.RunSpec(b, kw)
    r = equiv.equiv_worker(job, ra, rb, fp_prefix="C04/equiv", replay_kind="equiv", cells_fn=cells,
                           replay_extra={"bits": job["bits"], "base": job["spec"]})
    r["violations"] = viol + r["violations"]
    r["evaluated"] = job.get("_evaluated", 0)
    return r


def replay(rs):
    base = rs.get("base") or rs["spec"]
    s = apply_pattern(base, rs["bits"])
    s.pop("mode", None)
    supplied, pv = supplied_oracle(s)
    b = reduced_spec(s, supplied, pv)
    mode = rs.get("pfmode") or "hydraulics"
    labels = {nets.jlabel(s, j) for j in supplied}
    dead = {tuple(d) for d in b.pop("_dead", [])}
    present = {(e["t"], e["index"]) for e in b["elems"]} - dead
    kw = dict(use_numba=False, mode=mode, tol_p=1e-10, tol_m=1e-10, tol_res=1e-10, max_iter_hyd=300, max_iter_therm=300)
    for values in (rs.get("values", {}), {}):
        na, _ = nets.build(s, nets.concrete_valuer(values))
        oka, ea = concrete_pipeflow(na, **kw)
        if not supplied:
            return oka, {"no supplied junction, pipeflow returned": oka}
        nb, _ = nets.build(b, nets.concrete_valuer(values))
        okb, eb = concrete_pipeflow(nb, **kw)
        if oka != okb:
            return True, {"convergence differs": [ea, eb]}
        if not oka:
            continue
        worst, where = 0.0, None
        for key in [k for k in na.keys() if isinstance(k, str) and k.startswith("res_")]:
            ta = na[key]
            if not hasattr(ta, "columns"):
                continue
            tbl = key[4:]
            for ix in ta.index:
                for col in ta.columns:
                    x = ta.at[ix, col]
                    try:
                        xn = x is None or np.isnan(x)
                    except TypeError:
                        continue
                    if tbl == "junction" and col == "p_bar" and (not xn) != (ix in labels):
                        return True, {"pattern": "junction %s" % ix}
                    if tbl != "junction" and (tbl, ix) not in present:
                        if not xn:
                            return True, {"pattern": "%s %s reports %s" % (tbl, ix, col)}
                        continue
                    if key not in nb or ix not in nb[key].index or col not in nb[key].columns:
                        continue
                    y = nb[key].at[ix, col]
                    yn = y is None or np.isnan(y)
                    if xn or yn:
                        if xn != yn:
                            worst, where = 1.0, "%s.%s[%s] nan-ness" % (key, col, ix)
                        continue
                    g = abs(x - y) / (1 + abs(x) + abs(y))
                    if g > worst:
                        worst, where = g, "%s.%s[%s]: %r vs %r" % (key, col, ix, x, y)
        return worst > 1e-6, {"worst": worst, "where": where}
    return False, {"both fail": True}


def main(argv=None):
    return runner.run(PROP, "checks.c04", jobs, META, argv)
