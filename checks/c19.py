"""C19 — fluid and standard-type libraries return what their data and documentation say.

The real library code is executed on symbolic queries (z3 reals in object arrays):
  interp     every tabulated property of every library fluid through the real FluidPropertyInterExtra.get_at_value
             and scipy's real interp1d._evaluate: on every path (= table interval) the value is proved to be the
             linear interpolant / extrapolant of the tabulated points; value at each knot; output shaped like the query
  integral   get_at_integral_value of every property class: antisymmetric, additive, consistent with the values
  classes    Linear / Constant / Polynominal / Sutherland get_at_value == documented formula, array == scalar
  mixture    calculate_mixture_* / mass fractions: sum to one, molar <-> mass inverse, within component bounds
  pump       PumpStdType.get_pressure (symbolic coefficients): >= 0, 0 for reverse flow, polynomial otherwise, array == scalar
  data       compressibility slope == stored derivative; std-type parameters reach created pipes unchanged (evaluated)
"""
import importlib
import itertools
import os

import numpy as np
import pandas as pd
import z3

from svx import harness as H, stubs, runner, discharge as D
from svx.sym import Sym, _t, ENG, real, SQRT, POW
from svx.common import finish_worker, is_nan

PROP = "C19"
FLUIDS = ["water", "air", "lgas", "hgas", "hydrogen", "methane", "biomethane_pure", "biomethane_treated"]

META = {
    "level": "model_checking",
    "functions": ["properties.fluids.FluidPropertyInterExtra/Constant/Linear/Polynominal/Sutherland .get_at_value/.get_at_integral_value",
                  "scipy.interpolate.interp1d._evaluate (real, executed symbolically)", "properties.fluids.call_lib",
                  "properties_toolbox.calculate_mixture_viscosity/_density/_heat_capacity/_molar_mass/"
                  "calculate_mass_fraction_from_molar_fraction", "std_types.std_type_class.PumpStdType.get_pressure",
                  "create.create_pipe (std type parameters)"],
    "files": ["src/pandapipes/properties/fluids.py", "src/pandapipes/properties/properties_toolbox.py",
              "src/pandapipes/std_types/std_type_class.py", "src/pandapipes/std_types/std_types.py"],
    "stubs": ["interp1d.__call__ -> interp1d._evaluate on the object array (scipy's argument validation skipped)",
              "sqrt / pow uninterpreted"],
    "assumptions": ["reals instead of doubles", "queries: symbolic scalars and arrays of length <= 3",
                    "mixtures of 2-3 (thorough: 2-5) components with positive fractions / molar masses", "pump polynomials of degree <= 3 (thorough: <= 5)", "thorough: 12 generated user tables with 2-9 knots"],
    "bound": {"quick": "10 tabulated properties covering all 8 library fluids, every table interval + both extrapolation sides; property "
                       "classes on symbolic parameters; 2-3 component mixtures; pump degree 1-3",
              "thorough": "all 8 library fluids x 3 tabulated properties; rest as quick"},
    "outside": ["float rounding", "2-D (pressure dependent) user properties"],
    "rule": "one obligation per path (table interval) / identity",
}


def _install_interp():
    from scipy.interpolate import interp1d
    if not hasattr(interp1d, "_svx_orig_call"):
        interp1d._svx_orig_call = interp1d.__call__

        def call(self, x):
            xa = np.asarray(x, dtype=object) if (isinstance(x, Sym) or (isinstance(x, np.ndarray) and x.dtype == object)) else None
            if xa is None:
                return interp1d._svx_orig_call(self, x)
            shp = xa.shape
            y = self._evaluate(xa.ravel())
            return y.reshape(shp) if shp else y[0]
        interp1d.__call__ = call


def interp_worker(job):
    from pandapipes.properties.fluids import call_lib
    H.install(symbolic_constants=False)
    _install_interp()
    if job.get("table"):
        # user-defined tabulated property (thorough tier): generated knots
        from pandapipes.properties.fluids import FluidPropertyInterExtra
        prop = FluidPropertyInterExtra(np.array(job["table"][0], dtype=float), np.array(job["table"][1], dtype=float))
    else:
        fl = call_lib(job["fluid"])
        prop = fl.all_properties[job["prop"]]
    xs, ys = np.asarray(prop.prop_getter.x, dtype=float), np.asarray(prop.prop_getter.y, dtype=float)
    if job.get("table"):
        # the reference is the table the user gave (in ascending order of x), not what the interpolator stored
        order = np.argsort(np.asarray(job["table"][0], dtype=float))
        xs, ys = np.asarray(job["table"][0], dtype=float)[order], np.asarray(job["table"][1], dtype=float)[order]
    viol = []

    def run():
        return prop.get_at_value(real("x"))
    ex = H.explore(run, [], max_paths=400, feas_timeout_ms=2000)
    from svx.sym import rat
    x = z3.Real("x")
    for pi, p in enumerate(ex.paths):
        if p.exc is not None:
            return finish_worker(job, ex, viol, errors=["path %d raised %r" % (pi, p.exc)])
        # locate the interval from a model of the path condition
        r0, md = D.reachable(list(p.path), timeout_ms=3000)
        if r0 != 'sat':
            continue
        xv = md.get("x", 0.0) if md else 0.0
        i = int(np.clip(np.searchsorted(xs, xv), 1, len(xs) - 1))
        # the slope of an interval is a quotient of table values only: it is formed in double precision by
        # scipy (both operands concrete); the oracle takes the same double and is exact from there on
        slope = (float(ys[i]) - float(ys[i - 1])) / (float(xs[i]) - float(xs[i - 1]))
        want = rat(slope) * (x - rat(xs[i - 1])) + rat(ys[i - 1])
        val = p.value
        if isinstance(val, np.ndarray):
            val = val.ravel()[0]
        goal = _t(val) == want
        r, m, how = D.check(list(p.path), goal, sample="%s.%s path %d (interval %d)" % (job["fluid"], job["prop"], pi, i), timeout_ms=8000)
        if r == 'sat':
            viol.append({"fingerprint": "C19/interp", "detail": {"job": job["name"], "interval": i},
                         "replay": {"kind": "interp", "fluid": job["fluid"], "prop": job["prop"], "table": job.get("table"), "x": (m or {}).get("x", xv)}})
        elif r == 'unknown':
            job.setdefault("_inconclusive", []).append("interval %d" % i)
    # knots and shape (evaluated on the symbolic machinery with concrete knots)
    n_ev = 0
    for k in range(len(xs)):
        n_ev += 1
        v = float(prop.get_at_value(float(xs[k])))
        if abs(v - ys[k]) > 1e-9 * (1 + abs(ys[k])):
            viol.append({"fingerprint": "C19/knot", "detail": {"job": job["name"], "knot": k},
                         "replay": {"kind": "interp", "fluid": job["fluid"], "prop": job["prop"], "table": job.get("table"), "x": float(xs[k])}})
    for shape in ((2,), (3,), (2, 2)):
        n_ev += 1
        q = np.full(shape, float(xs[0]) + 1.0)
        if np.shape(prop.get_at_value(q)) != shape:
            viol.append({"fingerprint": "C19/shape", "detail": {"job": job["name"], "shape": shape},
                         "replay": {"kind": "interp", "fluid": job["fluid"], "prop": job["prop"], "table": job.get("table"), "x": float(xs[0]) + 1.0}})
    r = finish_worker(job, ex, viol, evaluated=n_ev)
    return r


def replay_interp(rs):
    from pandapipes.properties.fluids import call_lib
    if rs.get("table"):
        from pandapipes.properties.fluids import FluidPropertyInterExtra
        prop = FluidPropertyInterExtra(np.array(rs["table"][0], dtype=float), np.array(rs["table"][1], dtype=float))
    else:
        fl = call_lib(rs["fluid"])
        prop = fl.all_properties[rs["prop"]]
    xs, ys = np.asarray(prop.prop_getter.x, dtype=float), np.asarray(prop.prop_getter.y, dtype=float)
    if rs.get("table"):
        order = np.argsort(np.asarray(rs["table"][0], dtype=float))
        xs, ys = np.asarray(rs["table"][0], dtype=float)[order], np.asarray(rs["table"][1], dtype=float)[order]
    xv = float(rs["x"])
    i = int(np.clip(np.searchsorted(xs, xv), 1, len(xs) - 1))
    want = ys[i - 1] + (ys[i] - ys[i - 1]) * (xv - xs[i - 1]) / (xs[i] - xs[i - 1])
    got = float(prop.get_at_value(xv))
    shape_ok = np.shape(prop.get_at_value(np.full((2, 2), xv))) == (2, 2)
    return (abs(got - want) > 1e-9 * (1 + abs(want))) or not shape_ok, {"x": xv, "got": got, "want": want, "shape_ok": shape_ok}


# ---- property classes and integrals ---------------------------------------------------------------------------------------
def classes_worker(job):
    from pandapipes.properties import fluids as F
    H.install(symbolic_constants=False)
    _install_interp()
    viol, errs = [], []
    A = []

    def ob(label, goal, fp, hyps=()):
        r, m, how = D.check(list(A) + list(hyps), goal, sample=label, timeout_ms=8000)
        if r == 'sat':
            viol.append({"fingerprint": fp, "detail": {"what": label},
                         "replay": {"kind": "classes", "what": fp, "values": {k: v for k, v in (m or {}).items() if isinstance(v, float)}}})
        elif r == 'unknown':
            job.setdefault("_inconclusive", []).append(label)

    def guarded(label, fp, fn):
        try:
            return fn()
        except Exception as e:       # the documented query types must be accepted
            viol.append({"fingerprint": fp, "detail": {"what": "%s raised %r" % (label, e)},
                         "replay": {"kind": "classes", "what": fp, "values": {}}})
            return None
    a, b, c = real("a"), real("b"), real("c")
    sl, of = real("slope"), real("offset")
    # Linear
    lin = F.FluidPropertyLinear(sl, of)
    ob("Linear.get_at_value(a) = offset + slope a", _t(lin.get_at_value(a)) == of.t + sl.t * a.t, "C19/linear/value")
    arr = lin.get_at_value(np.array([a, b], dtype=object))
    ob("Linear.get_at_value(array) elementwise", z3.And(_t(arr[0]) == of.t + sl.t * a.t, _t(arr[1]) == of.t + sl.t * b.t), "C19/linear/value")
    for kind, mk in (("Series", lambda v: pd.Series(np.array([v], dtype=object))), ("array", lambda v: np.array([v], dtype=object)),
                     ("scalar", lambda v: v)):
        fp = "C19/linear/integral/%s" % kind
        iab = guarded("Linear.get_at_integral_value(%s)" % kind, fp, lambda: lin.get_at_integral_value(mk(a), mk(b)))
        if iab is None:
            continue
        iba = lin.get_at_integral_value(mk(b), mk(a))
        ibc = lin.get_at_integral_value(mk(b), mk(c))
        iac = lin.get_at_integral_value(mk(a), mk(c))
        g = lambda v: _t(np.asarray(v, dtype=object).ravel()[0])      # noqa
        ob("Linear integral (%s) antisymmetric" % kind, g(iab) == -g(iba), fp)
        ob("Linear integral (%s) additive" % kind, g(iab) + g(ibc) == g(iac), fp)
        ob("Linear integral (%s) = offset (a-b) + slope (a^2-b^2)/2" % kind,
           g(iab) == of.t * (a.t - b.t) + sl.t * (a.t * a.t - b.t * b.t) / 2, fp)
    # Constant
    con = F.FluidPropertyConstant(c)
    ob("Constant.get_at_value(a) = value", _t(con.get_at_value(a)) == c.t, "C19/constant/value")
    for kind, mk in (("Series", lambda v: pd.Series(np.array([v], dtype=object))), ("array", lambda v: np.array([v], dtype=object)),
                     ("scalar", lambda v: v)):
        fp = "C19/constant/integral/%s" % kind
        iab = guarded("Constant.get_at_integral_value(%s)" % kind, fp, lambda: con.get_at_integral_value(mk(a), mk(b)))
        if iab is None:
            continue
        g = lambda v: _t(np.asarray(v, dtype=object).ravel()[0])      # noqa
        ob("Constant integral (%s) = value (a - b)" % kind, g(iab) == c.t * (a.t - b.t), fp)
    # Sutherland
    e0, t0, ts = real("eta0"), real("t0"), real("ts")
    su = F.FluidPropertySutherland(e0, t0, ts)
    ob("Sutherland.get_at_value", _t(su.get_at_value(a)) == e0.t * (t0.t + ts.t) / (ts.t + a.t) * POW(a.t / t0.t, z3.RealVal("3/2")),
       "C19/sutherland/value")
    # Polynominal (concrete fit, symbolic query)
    xs = np.array([280.0, 300.0, 320.0, 340.0])
    ys = np.array([1.0, 1.4, 2.1, 3.3])
    po = F.FluidPropertyPolynominal(xs, ys, 2)
    from svx.sym import rat
    co = [rat(float(v)) for v in po.prop_getter.coefficients]
    want = co[0] * a.t * a.t + co[1] * a.t + co[2]
    ob("Polynominal.get_at_value(a) = fitted polynomial", _t(po.get_at_value(a)) == want, "C19/polynominal/value")
    ico = [rat(float(v)) for v in po.prop_int_getter.coefficients]
    prim = lambda v: ico[0] * v * v * v + ico[1] * v * v + ico[2] * v + ico[3]      # noqa
    iab, iba = po.get_at_integral_value(a, b), po.get_at_integral_value(b, a)
    ob("Polynominal integral antisymmetric", _t(iab) == -_t(iba), "C19/polynominal/integral")
    ob("Polynominal integral = P(a) - P(b)", _t(iab) == prim(a.t) - prim(b.t), "C19/polynominal/integral")
    # InterExtra integral (trapezoid of the end values): antisymmetric / consistent on one table interval
    ie = F.FluidPropertyInterExtra(np.array([280.0, 300.0, 320.0]), np.array([4.0, 4.4, 5.0]))
    inter = [a.t > 280, a.t < 300, b.t > 280, b.t < 300]

    def run_ie():
        return ie.get_at_integral_value(a, b), ie.get_at_integral_value(b, a), ie.get_at_value(a), ie.get_at_value(b)
    ex = H.explore(run_ie, inter, max_paths=64, feas_timeout_ms=2000)
    for p in ex.paths:
        if p.exc is not None:
            errs.append("InterExtra integral raised %r" % (p.exc,))
            continue
        iab, iba, va, vb = (np.asarray(q, dtype=object).ravel()[0] for q in p.value)
        hy = inter + list(p.path)
        for lab, goal in (("InterExtra integral antisymmetric", _t(iab) == -_t(iba)),
                          ("InterExtra integral = mean of end values times (a - b)", _t(iab) == (_t(va) + _t(vb)) / 2 * (a.t - b.t))):
            r, m, how = D.check(hy, goal, sample=lab, timeout_ms=8000)
            if r == 'sat':
                viol.append({"fingerprint": "C19/interextra/integral", "detail": {"what": lab},
                             "replay": {"kind": "classes", "what": "C19/interextra/integral",
                                        "values": {k: v for k, v in (m or {}).items() if isinstance(v, float)}}})
    return finish_worker(job, ex, viol, errors=errs)


def replay_classes(rs):
    from pandapipes.properties import fluids as F
    what = rs["what"]
    v = rs.get("values", {})
    a, b = float(v.get("a", 290.0)), float(v.get("b", 285.0))
    if what.startswith("C19/interextra/integral"):
        ie = F.FluidPropertyInterExtra(np.array([280.0, 300.0, 320.0]), np.array([4.0, 4.4, 5.0]))
        if not (280 < a < 300 and 280 < b < 300 and a != b):
            a, b = 290.0, 285.0
        iab, iba = float(ie.get_at_integral_value(a, b)), float(ie.get_at_integral_value(b, a))
        want = (float(ie.get_at_value(a)) + float(ie.get_at_value(b))) / 2 * (a - b)
        return abs(iab + iba) > 1e-9 or abs(iab - want) > 1e-9, {"I(a,b)": iab, "I(b,a)": iba, "trapezoid": want}
    if what.startswith("C19/linear/integral") or what.startswith("C19/constant/integral"):
        kind = what.rsplit("/", 1)[1]
        prop = F.FluidPropertyLinear(0.5, 2.0) if "linear" in what else F.FluidPropertyConstant(3.0)
        mk = {"Series": lambda x: pd.Series([x]), "array": lambda x: np.array([x]), "scalar": lambda x: x}[kind]
        try:
            got = float(np.asarray(prop.get_at_integral_value(mk(a), mk(b))).ravel()[0])
        except Exception as e:
            return True, {"raised": repr(e), "query": kind}
        want = 2.0 * (a - b) + 0.5 * (a * a - b * b) / 2 if "linear" in what else 3.0 * (a - b)
        return abs(got - want) > 1e-9 * (1 + abs(want)), {"got": got, "want": want}
    return False, {"note": "no numeric replay for %s" % what}


# ---- mixtures ---------------------------------------------------------------------------------------------------------------
def mixture_worker(job):
    pt = importlib.import_module("pandapipes.properties.properties_toolbox")
    H.install(symbolic_constants=False)
    n = job["n"]
    viol = []
    xs = [real("x%d" % i) for i in range(n)]          # molar fractions
    Ms = [real("M%d" % i) for i in range(n)]          # molar masses
    vs = [real("v%d" % i) for i in range(n)]          # component values
    A = [x.t > 0 for x in xs] + [M.t > 0 for M in Ms] + [v.t > 0 for v in vs] + [sum((x.t for x in xs), z3.RealVal(0)) == 1]
    xa, Ma, va = (np.array(l, dtype=object) for l in (xs, Ms, vs))

    def ob(label, goal, fp, extra=()):
        r, m, how = D.check(A + list(extra), goal, sample=label, timeout_ms=15000)
        if r == 'sat':
            viol.append({"fingerprint": fp, "detail": {"what": label, "n": n},
                         "replay": {"kind": "mixture", "what": fp, "n": n, "values": {k: v for k, v in (m or {}).items() if isinstance(v, float)}}})
        elif r == 'unknown':
            job.setdefault("_inconclusive", []).append(label)
    w = pt.calculate_mass_fraction_from_molar_fraction(xa, Ma)
    ob("mass fractions sum to one", sum((_t(v) for v in w), z3.RealVal(0)) == 1, "C19/mixture/mass_fraction_sum")
    for i in range(n):
        ob("mass fraction %d in (0, 1]" % i, z3.And(_t(w[i]) > 0, _t(w[i]) <= 1), "C19/mixture/mass_fraction_bounds")
    mm_molar = pt.calculate_mixture_molar_mass(Ma, components_molar_proportions=xa)
    mm_mass = pt.calculate_mixture_molar_mass(Ma, components_mass_proportions=w)
    ob("mixture molar mass: molar form == mass form of the converted fractions", _t(mm_molar) == _t(mm_mass), "C19/mixture/molar_mass_inverse")
    ws = [real("w%d" % i) for i in range(n)]
    Aw = [q.t > 0 for q in ws] + [sum((q.t for q in ws), z3.RealVal(0)) == 1]
    wa = np.array(ws, dtype=object)
    rho = pt.calculate_mixture_density(va, wa)
    cp = pt.calculate_mixture_heat_capacity(va, wa)
    lo = lambda t: z3.And([t >= v.t for v in vs][:0] + [z3.Or([t >= v.t for v in vs])])     # noqa  (>= min)
    hi = lambda t: z3.Or([t <= v.t for v in vs])                                                # noqa  (<= max)
    ob("mixture density within component bounds", z3.And(lo(_t(rho)), hi(_t(rho))), "C19/mixture/density_bounds", Aw)
    ob("mixture heat capacity within component bounds", z3.And(lo(_t(cp)), hi(_t(cp))), "C19/mixture/cp_bounds", Aw)
    ob("mixture heat capacity = sum w_i cp_i", _t(cp) == sum((w_.t * v.t for w_, v in zip(ws, vs)), z3.RealVal(0)), "C19/mixture/cp_formula", Aw)
    ob("mixture density = 1 / sum(w_i / rho_i)", _t(rho) * sum((w_.t / v.t for w_, v in zip(ws, vs)), z3.RealVal(0)) == 1,
       "C19/mixture/density_formula", Aw)
    eta = pt.calculate_mixture_viscosity(va, xa, Ma)
    sq = [SQRT(M.t) for M in Ms]
    ob("mixture viscosity = sum(eta_i x_i sqrt(M_i)) / sum(x_i sqrt(M_i))",
       _t(eta) * sum((x.t * s for x, s in zip(xs, sq)), z3.RealVal(0)) == sum((v.t * x.t * s for v, x, s in zip(vs, xs, sq)), z3.RealVal(0)),
       "C19/mixture/viscosity_formula", [s > 0 for s in sq])
    return finish_worker(job, H.Exploration(), viol)


def replay_mixture(rs):
    pt = importlib.import_module("pandapipes.properties.properties_toolbox")
    n = rs["n"]
    rng = np.random.RandomState(3)
    x = rng.rand(n) + 0.1
    x /= x.sum()
    M = rng.rand(n) * 30 + 2
    v = rng.rand(n) * 5 + 0.5
    w = pt.calculate_mass_fraction_from_molar_fraction(x, M)
    bad = []
    if abs(w.sum() - 1) > 1e-12:
        bad.append("mass fractions sum to %r" % w.sum())
    if abs(pt.calculate_mixture_molar_mass(M, components_molar_proportions=x) - pt.calculate_mixture_molar_mass(M, components_mass_proportions=w)) > 1e-9:
        bad.append("molar mass forms differ")
    rho = pt.calculate_mixture_density(v, w)
    cp = pt.calculate_mixture_heat_capacity(v, w)
    if not (v.min() - 1e-12 <= rho <= v.max() + 1e-12) or not (v.min() - 1e-12 <= cp <= v.max() + 1e-12):
        bad.append("mixture value outside component bounds")
    if abs(cp - (w * v).sum()) > 1e-12 or abs(rho - 1 / (w / v).sum()) > 1e-12:
        bad.append("mixture formula")
    eta = pt.calculate_mixture_viscosity(v, x, M)
    if abs(eta - (v * x * np.sqrt(M)).sum() / (x * np.sqrt(M)).sum()) > 1e-12:
        bad.append("viscosity formula")
    return bool(bad), {"bad": bad}


# ---- pump -----------------------------------------------------------------------------------------------------------------------
def pump_worker(job):
    from pandapipes.std_types.std_type_class import PumpStdType
    H.install(symbolic_constants=False)
    deg = job["deg"]
    viol = []
    cs = [real("c%d" % i) for i in range(deg + 1)]
    st = PumpStdType("sym", np.array(cs, dtype=object))
    v = real("vdot")

    def poly(t):
        acc = z3.RealVal(0)
        for i, c in enumerate(cs):
            e = deg - i
            term = c.t
            for _ in range(e):
                term = term * (t * 3600)
            acc = acc + term
        return acc

    def run_scalar():
        return st.get_pressure(v)
    ex = H.explore(run_scalar, [], max_paths=32, feas_timeout_ms=2000)
    for p in ex.paths:
        if p.exc is not None:
            return finish_worker(job, ex, viol, errors=["scalar get_pressure raised %r" % (p.exc,)])
        hy = list(p.path)
        pv = poly(v.t)
        want = z3.If(v.t >= 0, z3.If(pv >= 0, pv, z3.RealVal(0)), z3.RealVal(0))
        r, m, how = D.check(hy, _t(p.value) == want, sample="pump scalar deg %d" % deg, timeout_ms=8000)
        if r == 'sat':
            viol.append({"fingerprint": "C19/pump/scalar", "detail": {"deg": deg},
                         "replay": {"kind": "pump", "deg": deg, "values": {k: x for k, x in (m or {}).items() if isinstance(x, float)}}})
    # array query == scalar query, element by element (mixed signs)
    v2 = real("vdot2")

    def run_array():
        return st.get_pressure(np.array([v, v2], dtype=object))
    ex2 = H.explore(run_array, [], max_paths=64, feas_timeout_ms=2000)
    for p in ex2.paths:
        if p.exc is not None:
            viol.append({"fingerprint": "C19/pump/array", "detail": {"deg": deg, "what": "array query raised %r" % (p.exc,)},
                         "replay": {"kind": "pump", "deg": deg, "values": {}, "array": True}})
            break
        hy = list(p.path)
        for k, q in enumerate((v, v2)):
            pv = poly(q.t)
            want = z3.If(q.t >= 0, z3.If(pv >= 0, pv, z3.RealVal(0)), z3.RealVal(0))
            r, m, how = D.check(hy, _t(p.value[k]) == want, sample="pump array deg %d elem %d" % (deg, k), timeout_ms=8000)
            if r == 'sat':
                viol.append({"fingerprint": "C19/pump/array", "detail": {"deg": deg, "element": k},
                             "replay": {"kind": "pump", "deg": deg, "array": True,
                                        "values": {kk: x for kk, x in (m or {}).items() if isinstance(x, float)}}})
                break
    ex.paths += ex2.paths
    return finish_worker(job, ex, viol)


def replay_pump(rs):
    from pandapipes.std_types.std_type_class import PumpStdType
    deg = rs["deg"]
    vals = rs.get("values", {})
    cs = np.array([float(vals.get("c%d" % i, [-2.0, 1.0, 3.0, 0.5][i % 4])) for i in range(deg + 1)])
    st = PumpStdType("p", cs)

    def want(q):
        if q < 0:
            return 0.0
        return max(0.0, float(np.polyval(cs, q * 3600)))
    qs = [float(vals.get("vdot", 0.002)), float(vals.get("vdot2", -0.001))]
    bad = []
    for q in qs + [0.002, -0.001, 5.0]:
        got = st.get_pressure(q)
        if abs(got - want(q)) > 1e-9 * (1 + abs(want(q))):
            bad.append("scalar %r: %r vs %r" % (q, got, want(q)))
    for arr in (np.array(qs), np.array([0.002, -0.001]), np.array([5.0, 0.001])):
        try:
            got = np.asarray(st.get_pressure(arr), dtype=float)
            w = np.array([want(q) for q in arr])
            if got.shape != w.shape or np.any(np.abs(got - w) > 1e-9 * (1 + np.abs(w))):
                bad.append("array %r: %r vs %r" % (arr.tolist(), got.tolist(), w.tolist()))
        except Exception as e:
            bad.append("array %r raised %r" % (arr.tolist(), e))
    return bool(bad), {"bad": bad[:4]}


# ---- data identities ------------------------------------------------------------------------------------------------------------------
def data_worker(job):
    import pandapipes as pp
    from pandapipes.properties.fluids import call_lib
    viol = []
    n_ev = 0
    for f in FLUIDS:
        fl = call_lib(f)
        n_ev += 1
        comp, der = fl.all_properties["compressibility"], fl.all_properties["der_compressibility"]
        if abs(float(comp.slope) - float(np.asarray(der.get_at_value()).ravel()[0])) > 1e-15:
            viol.append({"fingerprint": "C19/data/der_compressibility", "detail": {"fluid": f},
                         "replay": {"kind": "data", "what": "der", "fluid": f}})
    net = pp.create_empty_network(fluid="water")
    j = pp.create_junctions(net, 2, pn_bar=5, tfluid_k=300)
    for name, par in net.std_types["pipe"].items():
        n_ev += 1
        ix = pp.create_pipe(net, j[0], j[1], std_type=name, length_km=1.0)
        row = net.pipe.loc[ix]
        ok = abs(row.inner_diameter_mm - par["inner_diameter_mm"]) < 1e-12
        if "outer_diameter_mm" in par and "outer_diameter_mm" in row and not np.isnan(par["outer_diameter_mm"]):
            ok = ok and abs(row.outer_diameter_mm - par["outer_diameter_mm"]) < 1e-12
        if not ok:
            viol.append({"fingerprint": "C19/data/pipe_std_type", "detail": {"std_type": name},
                         "replay": {"kind": "data", "what": "pipe", "std_type": name}})
    D.STATS.obligations += n_ev
    D.STATS.rewriter += n_ev - len(viol)
    return finish_worker(job, H.Exploration(), viol, evaluated=n_ev)


def replay_data(rs):
    import pandapipes as pp
    from pandapipes.properties.fluids import call_lib
    if rs["what"] == "der":
        fl = call_lib(rs["fluid"])
        a = float(fl.all_properties["compressibility"].slope)
        b = float(np.asarray(fl.all_properties["der_compressibility"].get_at_value()).ravel()[0])
        return abs(a - b) > 1e-15, {"slope": a, "der": b}
    net = pp.create_empty_network(fluid="water")
    j = pp.create_junctions(net, 2, pn_bar=5, tfluid_k=300)
    par = net.std_types["pipe"][rs["std_type"]]
    ix = pp.create_pipe(net, j[0], j[1], std_type=rs["std_type"], length_km=1.0)
    return abs(net.pipe.at[ix, "inner_diameter_mm"] - par["inner_diameter_mm"]) > 1e-12, {}


def jobs(tier, seed):
    out = []
    quick_sel = {("water", "density"), ("water", "viscosity"), ("water", "heat_capacity"), ("lgas", "density"),
                 ("hydrogen", "viscosity"), ("air", "heat_capacity"), ("methane", "density"), ("hgas", "viscosity"),
                 ("biomethane_pure", "heat_capacity"), ("biomethane_treated", "density")}
    for f in FLUIDS:
        for prop in ("density", "viscosity", "heat_capacity"):
            out.append({"name": "interp/%s/%s" % (f, prop), "kind": "interp", "fluid": f, "prop": prop})
    out.append({"name": "classes", "kind": "classes"})
    # user-defined tables whose rows are not in ascending order of x (a descending data sheet, shuffled measurements)
    out.append({"name": "interp/user_descending", "kind": "interp", "fluid": "user", "prop": "descending",
                "table": [[400.0, 350.0, 300.0, 273.15], [0.6, 0.9, 1.3, 1.8]]})
    out.append({"name": "interp/user_shuffled", "kind": "interp", "fluid": "user", "prop": "shuffled",
                "table": [[300.0, 273.15, 400.0, 350.0, 500.0], [1.3, 1.8, 0.6, 0.9, 0.4]]})
    if tier == "thorough":
        import random
        rng = random.Random(1900 + seed)
        for i in range(12):
            k = rng.choice([2, 3, 4, 6, 9])
            xs_ = sorted(rng.sample([-40.0, -5.5, 0.0, 1.25, 3.0, 17.0, 250.0, 273.15, 300.0, 333.3, 400.0, 1e3, 5e4], k))
            ys_ = [rng.choice([-2.5, 0.0, 0.001, 1.0, 4.2, 998.0, 1e5]) * (1 + 0.1 * j) for j in range(k)]
            out.append({"name": "interp/user%d" % i, "kind": "interp", "fluid": "user", "prop": "table%d" % i, "table": [xs_, ys_]})
    for n in ((2, 3) if tier == "quick" else (2, 3, 4, 5)):
        out.append({"name": "mixture/n%d" % n, "kind": "mixture", "n": n})
    for deg in ((1, 2, 3) if tier == "quick" else (1, 2, 3, 4, 5)):
        out.append({"name": "pump/deg%d" % deg, "kind": "pump", "deg": deg})
    out.append({"name": "data", "kind": "data"})
    return out


WORKERS = {"interp": interp_worker, "classes": classes_worker, "mixture": mixture_worker, "pump": pump_worker, "data": data_worker}
REPLAYS = {"interp": replay_interp, "classes": replay_classes, "mixture": replay_mixture, "pump": replay_pump, "data": replay_data}


def worker(job):
    return WORKERS[job["kind"]](job)


def replay(rs):
    return REPLAYS[rs["kind"]](rs)


def main(argv=None):
    return runner.run(PROP, "checks.c19", jobs, META, argv)
