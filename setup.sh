#!/bin/sh
# Build the overlay venv offline: /venv's packages + the working tree of /repo + solver wheels.
set -e
DIR=$(dirname "$(readlink -f "$0")")
REPO=${VERIF_REPO:-/repo}
exec 9>"$DIR/.venv.lock"
flock 9
if [ -x "$DIR/.venv/bin/python" ] && "$DIR/.venv/bin/python" -c "import z3, cvc5, crosshair, pandapipes" 2>/dev/null; then
    exit 0
fi
rm -rf "$DIR/.venv"
/venv/bin/python -m venv "$DIR/.venv"
SP=$("$DIR/.venv/bin/python" -c "import sysconfig; print(sysconfig.get_paths()['purelib'])")
printf '/venv/lib/python3.12/site-packages\n%s/src\n' "$REPO" > "$SP/_overlay.pth"
PIP_NO_INDEX=1 "$DIR/.venv/bin/pip" install --quiet --no-index --find-links /opt/veriftools/wheels \
    z3-solver cvc5 crosshair-tool
"$DIR/.venv/bin/python" -c "import z3, cvc5, crosshair, pandapipes; print('overlay venv ok', z3.get_version_string())"
