"""writes MANIFEST.json from the table below (keeps claimed / not_applicable consistent)"""
import json
import os

HERE = os.path.dirname(os.path.dirname(os.path.abspath(__file__)))
BASE_OFF = ("cd /repo && /venv/bin/python -m pytest -ra -q -p no:cacheprovider --timeout=900 "
            "--continue-on-collection-errors")

TRUST = ("z3 4.x/5.1 (and cvc5 where used); reals instead of IEEE doubles; the environment stubs listed in the "
         "evidence file (spsolve contract, csr_matrix recorder, fluid properties as uninterpreted functions, "
         "transcendental functions uninterpreted + axioms); structure (topology, flags, labels) enumerated, "
         "not symbolic; CPython semantics of the numba kernels' source (py_func)")

CLAIMED = {
    "C01": dict(
        text="Bounded model checking of the real code: pandapipes.pipeflow is executed on symbolic tables "
             "(z3 reals in numpy object arrays), one undamped Newton step from an arbitrary state with spsolve "
             "replaced by its contract J x = b; z3 decides per structure and path that the nodal and global "
             "imbalance of the *reported* flows is exactly 0 for every value of every numeric input. Structures "
             "(topology, component mix, flags, labels) are enumerated up to the stated bound.",
        technique="symbolic execution of the real Python source (operator overloading) + z3 (LRA/NRA) per path; "
                  "concolic path selection + bounded fork exploration; counterexamples replayed on the real pipeflow",
        design="4/C01"),
    "C02": dict(
        text="Bounded model checking of the real hydraulic code at an arbitrary state: per pipe section, valve and heat "
             "exchanger the residual row the real pipeflow assembles is proved equal, as a term over all inputs, to the "
             "documented momentum equation (liquid: hydrostatic + Darcy-Weisbach + lumped loss; gas: integrated real-gas form "
             "with K at the mean pressure) with geometry taken from the input tables; Reynolds number and friction factor are "
             "proved to be the documented functions (Nikuradse, Swamee-Jain; Colebrook-White as the root of the documented "
             "implicit equation), and reported lambda / Re / velocities / volume flow / norm factors to follow from the "
             "reported flow, pressures and temperatures. numpy and numba py_func, forward / reverse / zero flow.",
        technique="symbolic execution of the real Python source + z3 term identities (abs canonicalisation, rational normal "
                  "form, NRA); counterexamples replayed on the real pipeflow",
        design="4/C02"),
    "C03": dict(
        text="Bounded model checking of the real code: every prescribed pressure / mass flow / lift / load is compared with "
             "the value the real extraction writes into the result tables, as z3 terms over all numeric inputs. Linear "
             "set-points are decided on the state after one undamped Newton step from an arbitrary state (their rows are "
             "linear, so one step is exact and the fixed entries are inductive); pump curve and compressor ratio at the "
             "exact fixed point of the element's own residual row. The same obligations are decided in the thermal modes "
             "(sequential, bidirectional), where the solved temperatures enter densities and volume flows.",
        technique="symbolic execution of the real Python source + z3 (rewriter, linear abstraction, NRA) per path; "
                  "concolic path selection; counterexamples replayed on the real pipeflow",
        design="4/C03"),
    "C07": dict(
        text="Bounded model checking / translation validation between twin implementations: every numba kernel is "
             "executed symbolically from its own Python source (py_func) next to its numpy twin on symbolic arrays; for "
             "every jointly feasible pair of paths each residual-type and reported output is proved equal for all values. "
             "End to end, the real pipeflow is executed symbolically with use_numba False / True from the same arbitrary "
             "state (assembled systems and all extracted results equal), and a two-call history with "
             "only_update_hydraulic_matrix + reuse_internal_data and changed loads is proved equal to a plain call.",
        technique="symbolic execution of both twins + z3 equivalence queries per path pair (rewriter / rational normal "
                  "form / NRA); counterexamples replayed on the compiled kernels and on the real pipeflow",
        design="4/C07"),
    "C04": dict(
        text="Per enumerated in_service / opened / control_active pattern: (A) an independent reachability over the element "
             "tables gives the supplied set and the NaN pattern of every result table of the symbolic run must match it "
             "(decided by evaluation, labelled so in the evidence); (B) the net with every unsupplied / disabled element "
             "deleted is executed symbolically as well, and z3 proves entry-wise equality of the Newton systems and of all "
             "results of the supplied part for all parameter values.",
        technique="flag patterns enumerated; symbolic execution of both descriptions + z3 equivalence queries; supplied-set "
                  "oracle by evaluation; counterexamples replayed on the real pipeflow",
        design="4/C04"),
    "C05": dict(
        text="Bounded model checking of the iteration driver: finalize_iteration / set_damping_factor are executed "
             "symbolically on arbitrary error histories, residuals, tolerances and alpha (NaN-ness enumerated), all paths "
             "explored, and z3 proves the verdict post-conditions and the alpha / restore bookkeeping; the real "
             "newton_raphson is executed with the per-iteration solve replaced by fresh symbolic iterates for every history "
             "up to the iteration budget (also with a NaN entry in the residual vector); the assumption of that proof - the "
             "stage functions hand the driver one (new, old) pair per solver variable, aligned with tolerances and pit "
             "columns, covering every updated unknown - is discharged on the real solve_hydraulics / solve_temperature / "
             "solve_bidirectional executed symbolically on real nets; the real pipeflow is run over all sequences of forced "
             "verdicts and supply cuts on one net object (failure => exception, not converged, no number in any result table).",
        technique="symbolic execution (fork-complete) of the real driver code + z3 per path; call sequences enumerated; "
                  "counterexamples replayed on the real functions with floats",
        design="4/C05"),
    "C06": dict(
        text="Two-run equivalence by bounded model checking of the real code: the base description and a relabelled / "
             "row-permuted / differently created description are both executed symbolically from the same arbitrary state "
             "(symbols named by element identity through the relabelling); z3 proves entry-wise equality of the assembled "
             "Newton systems and of every extracted result cell for all parameter values. Labellings are enumerated from a "
             "pool (non-contiguous, unsorted, both sides of the 1e5 grouping switch).",
        technique="symbolic execution of both descriptions + z3 equivalence queries (rewriter / rational normal form / NRA); "
                  "counterexamples replayed on the real pipeflow",
        design="4/C06"),
    "C08": dict(
        text="Weaker, stated form (global uniqueness on arbitrary networks is not decidable here): (noleak) with every unknown "
             "havocked, a free-variable check on the terms of the real code shows that no start-value symbol (pn_bar; tfluid_k in "
             "thermal stages / bidirectional mode) occurs in any residual, Jacobian entry or result; (unique) for a single branch "
             "between fixed pressures z3/nlsat proves from the real kernel's residual F that F(a) = 0 and F(b) = 0 imply a = b "
             "(liquid and gas, all regime pairs); (damping) every unknown of the real update is proved to be old - alpha * dx, so "
             "the fixed points do not depend on alpha in (0, 1].",
        technique="symbolic execution of the real code + free-variable analysis of the z3 terms, nlsat for single-branch "
                  "uniqueness, term identities for the damped update",
        design="4/C08"),
    "C09": dict(
        text="Two-run equivalences by bounded model checking of the real code, each decided by z3 for all parameter values "
             "per enumerated structure: reversed branches (same state in mirrored coordinates: residual rows and reported "
             "values equal up to the documented sign/column swap), aggregated loads, disabled elements vs. their absence, "
             "liquid pressure shift, n sections vs. n pipes in series (identity-mapped Newton systems), and for liquids at "
             "uniform temperature the n section rows summing up to the row of the 1-section pipe and every reported cell of "
             "the n-section pipe equal to that of the 1-section pipe at a common fixed point.",
        technique="symbolic execution of both descriptions + z3 equivalence queries (If-resolution, abs canonicalisation, "
                  "rational normal form, NRA); counterexamples replayed on the real pipeflow",
        design="4/C09"),
    "C10": dict(
        text="Bounded model checking of the real thermal code at an arbitrary thermal state: the residual rows the real "
             "pipeflow (sequential / bidirectional, numpy and numba py_func) assembles for the thermal Newton system are "
             "proved equal, as terms over all inputs, to the documented cooling law per section (exponent and row, actual "
             "flow direction), to the energy-conserving mixing equation with the mean heat capacity per stream, and the "
             "feeder temperatures are proved to be imposed; the outlet-between-inlet-and-ambient bound follows from the "
             "row with 0 < exp <= 1.",
        technique="symbolic execution of the real Python source at the exact fixed point + z3 term identities (rewriter, "
                  "rational normal form, NRA); counterexamples replayed on the real pipeflow",
        design="4/C10"),
    "C11": dict(
        text="Same engine as C10: the thermal (and, for the return-temperature mode, hydraulic) row of every heat consumer / "
             "exchanger is proved equal to T_from - T_out - q/(c_m |m|) resp. -q + m c_m (T_from - T_out) for all values, the "
             "mode-specific heat terms and set-points are proved as term identities, the circulation pump's reported heat is "
             "proved to be m (cp T)_flow - m (cp T)_return, and the arithmetic steps (row = 0 => duty equation, loop closure "
             "for constant heat capacity) are discharged once as nlsat lemmas.",
        technique="symbolic execution of the real Python source at the exact fixed point + z3 term identities and nlsat lemmas; "
                  "counterexamples replayed on the real pipeflow; one known finding (F17) listed",
        design="4/C11"),
    "C12": dict(
        text="Bounded model checking over histories of the real pipeflow: (purity) every input cell, fluid, std types, "
             "stored user options and defaults are unchanged after a symbolic run; (history) the last call of each "
             "enumerated history (other modes/options, forced failures, edited-and-restored loads; earlier calls on their "
             "own symbol families) is proved equal to a call on a fresh net - Newton systems and all results, for all "
             "values, with and without havoc of the iterate - and no symbol of an earlier call occurs in any result; "
             "(heat) mode='heat' from a stored hydraulic solution equals mode='sequential'.",
        technique="symbolic execution of call histories + z3 equivalence queries and free-variable (taint) check; "
                  "counterexamples replayed on the real pipeflow",
        design="4/C12"),
    "C13": dict(
        text="The real run_timeseries -> run_loop -> pandapower.run_time_step -> run_control -> ConstControl chain runs on a "
             "profile frame of symbols with the real (symbolically executed) pipeflow as run function; for every enumerated "
             "step list z3 proves the Newton system each step assembled and each captured result cell equal to those of a "
             "stand-alone symbolic pipeflow with the step's profile symbols, a free-variable check shows that no symbol of "
             "another step occurs in system or results, and divergence (forced verdicts, a feeder switched off by a profile) at "
             "every subset of steps must be flagged exactly and, with continue_on_divergence, leave later steps unchanged; a "
             "profile that switches a pipe under the matrix-update option must not carry internal data from step to step.",
        technique="symbolic execution through the real time-series loop + z3 equivalence per step, taint by free variables; "
                  "divergence patterns enumerated; counterexamples replayed on the real run_timeseries",
        design="4/C13"),
    "C14": dict(
        text="CrossHair executes the real init_options / _iteration_check / _mode_check / set_user_pf_options symbolically "
             "(z3) on dict layers built from symbolic presence flags and values; for each key cluster the documented "
             "precedence, the couplings (reuse only with update, 'all' -> sequential, numba fallback), carry-through of "
             "unknown keys and non-mutation of defaults / user options are either confirmed over all paths or refuted "
             "with concrete arguments (replayed in plain Python); that the resolved stage limits are the ones in force is "
             "decided on the real hydraulics / heat_transfer / bidirectional + real Newton driver with a never-converging "
             "solve (number of solves == resolved limit of that stage, symbolic limits).",
        technique="CrossHair symbolic execution (z3) of the real option-resolution code, per-condition verdicts",
        engine="crosshair", design="4/C14",
        note="CrossHair 0.0.110 + z3; values modelled as ints/bools; get_fluid stubbed; 'Not confirmed' is reported as "
             "inconclusive, never as success"),
    "C17": dict(
        text="Relabel-only tools (reindex_junctions / _pipes / _elements, create_continuous_*): the real tool is applied to the "
             "symbolic net and z3 proves Newton systems and all results equal to those of the original through the relabelling, "
             "for all parameter values (labels / lookups enumerated, incl. pipe labels that coincide with junction labels and "
             "junction-pipe valves); select_subnet of a complete supplied region is proved to reproduce the region's results. "
             "Referential integrity after every tool and seeded tool pairs (incl. drop_* and fuse_junctions) by evaluation, "
             "labelled so.",
        technique="real tool applied to the symbolic net + two-run equivalence decided by z3; reference sets by evaluation; "
                  "counterexamples replayed on the real tools and pipeflow",
        design="4/C17"),
    "C18": dict(
        text="Distances: networkx' Dijkstra (pure Python) is executed by the real calc_distance_to_junction / "
             "calc_minimum_distance_to_junctions / create_nxgraph on nets with symbolic pipe lengths; on every path z3 (LRA) proves "
             "each returned distance to be the minimum over all simple paths of the summed lengths, for all positive lengths "
             "(multigraph and simple graph, open / closed valves). Pattern part (by evaluation, labelled so): per enumerated "
             "flag pattern unsupplied_junctions + out-of-service == junctions without pressure result, and the graph has exactly "
             "one edge per live junction-junction element (none for junction-pipe valves, the pipe's edge removed when closed).",
        technique="symbolic execution of networkx Dijkstra through the real topology functions + z3 (LRA) per path; set "
                  "equalities of the pattern part by evaluation; one known finding (F21) listed",
        design="4/C18"),
    "C19": dict(
        text="The real library code is executed on symbolic queries: every tabulated property of every library fluid through "
             "the real FluidPropertyInterExtra.get_at_value and scipy's real interp1d._evaluate - each path is one table "
             "interval or extrapolation side, and z3 proves the value to be the linear interpolant of the tabulated points; "
             "the integral methods of all property classes (antisymmetry, additivity, consistency, all argument kinds), the "
             "Linear / Constant / Polynominal / Sutherland formulas, the mixture rules (fractions sum to one, molar<->mass "
             "inverse, bounds; NRA) and PumpStdType.get_pressure with symbolic coefficients (>= 0, 0 for reverse flow, "
             "polynomial otherwise, array == scalar). Data identities (compressibility slope, std-type parameters) by evaluation.",
        technique="symbolic execution (fork-complete over table intervals) of the real library code + z3 (LRA/NRA); data "
                  "identities by evaluation; counterexamples replayed with floats",
        design="4/C19"),
    "C20": dict(
        text="The real coupling controllers (P2G, G2P power- and gas-led, gas-to-gas) execute control_step / write_to_net on "
             "tables with symbolic power, mass flow, scaling, efficiency and heating values (scalar and vector indices) and z3 "
             "proves the written value to be the documented conversion; round trips return the product of the efficiencies "
             "(NRA); the real run_control of a multinet (power flow stubbed, pipe nets calculated symbolically; power-to-gas, "
             "gas-to-gas with an otherwise uncontrolled target net, two couplings in one level) is proved to leave the pipe "
             "net with exactly the Newton system and results of a stand-alone symbolic pipeflow with the written values; the "
             "combined convergence flag of _evaluate_multinet is evaluated over all verdict patterns of <= 3 nets.",
        technique="symbolic execution of the real controller / run_control code + z3 term identities; verdict patterns "
                  "enumerated; counterexamples replayed with floats on the real functions",
        design="4/C20"),
}

NOT_APPLICABLE = {
    "C15": "serialisation lives in json/pickle/pandas C code and float<->text conversion; symbolic cells cannot pass "
           "a serialiser and string round-trips are outside what the solvers decide here (DESIGN 4, 'Not applicable')",
    "C16": "index uniqueness / dtype preservation / atomicity are pandas index operations over an enumeration of call "
           "variants; parameter values are only passed through, nothing for a solver to decide (DESIGN 4)",
}

PENDING = {}  # property -> reason, for properties whose check is not built yet


def main():
    props = [json.loads(l)["id"] for l in open(os.path.join(HERE, "properties.jsonl"))]
    checks = []
    for pid in props:
        if pid not in CLAIMED:
            continue
        c = CLAIMED[pid]
        checks.append({
            "property_id": pid,
            "quick_cmd": "./run_check %s --tier quick" % pid,
            "thorough_cmd": "./run_check %s --tier thorough" % pid,
            "evidence_file": "evidence/%s.json" % pid,
            "replay_cmd_template": "./run_check %s --replay {path}" % pid,
            "engine": c.get("engine", "svx"),
            "level_claimed": {"category": c.get("category", "model_checking"), "text": c["text"],
                              "design_ref": "DESIGN.md section " + c["design"]},
            "level_note": c.get("note", TRUST),
            "technique": c["technique"],
        })
    na = []
    for pid in props:
        if pid in CLAIMED:
            continue
        reason = NOT_APPLICABLE.get(pid) or PENDING.get(pid) or "check not built yet (planned, see DESIGN.md section 4)"
        na.append({"property_id": pid, "reason": reason})
    man = {
        "version": 1,
        "setup_cmd": "sh ./setup.sh",
        "hooks": {"guard": "E2NIEE_PANDAPIPES_VERIF", "enable": "no source hooks: every stub is installed from the "
                  "harness side by rebinding module globals of the imported working tree",
                  "baseline_off_cmd": BASE_OFF, "source_commits": [], "add_only": True},
        "engines": [
            {"name": "svx", "path": "svx/", "serves_properties": [p for p in props if p in CLAIMED and CLAIMED[p].get("engine", "svx") == "svx"],
             "kind_free_text": "symbolic values (z3 reals) through the unmodified pandapipes source, concrete structure; "
                               "path exploration by replay-based DFS / concolic witnesses; obligations to z3 (cvc5 cross-check)"},
            {"name": "crosshair", "path": "crosshair/", "serves_properties": [p for p in props if p in CLAIMED and CLAIMED[p].get("engine") == "crosshair"],
             "kind_free_text": "CrossHair symbolic execution of pure-Python option handling"},
        ],
        "checks": checks,
        "not_applicable": na,
        "notes": "All checks regenerate their encoding from /repo/src on every run (pandapipes is imported from the working "
                 "tree). Exit 0 = held within the stated bounds; 1 = replayed violation; 2 = harness error / unconfirmed.",
    }
    json.dump(man, open(os.path.join(HERE, "MANIFEST.json"), "w"), indent=1)
    print("claimed:", [c["property_id"] for c in checks], "not claimed:", [n["property_id"] for n in na])


if __name__ == "__main__":
    main()
