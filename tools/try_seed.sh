#!/bin/sh
# usage: tools/try_seed.sh <seed dir> <property id> [extra run_check args]
# applies the seeded change to /repo, runs the demo and the check, and undoes the change again
D=$1; P=$2; shift 2
cd /repo || exit 2
git diff --quiet || { echo "repo not clean"; exit 2; }
git apply "$D/patch.diff" || { echo "patch does not apply"; exit 2; }
echo "--- demo with the change:"; PYTHONPATH=/repo/src /venv/bin/python "$D/demo.py" > /tmp/demo.out 2>&1; echo "demo exit=$?"; tail -3 /tmp/demo.out
echo "--- check $P:"; cd /verif && ./run_check $P --tier quick "$@" 2>&1 | grep -E "VIOLATION|KNOWN|HARNESS|UNCONFIRMED|^C[0-9]+ tier" | cut -c1-300 | head -8; echo "check exit=$?"
cd /repo && git checkout -- . && git status --short | head -3
