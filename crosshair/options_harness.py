"""CrossHair harness for C14 (option precedence).  Each function builds real dicts from presence
flags + values, calls the *real* pandapipes.pf.pipeflow_setup.init_options and returns whether the
documented precedence holds; CrossHair searches for inputs that make it return False."""
import copy
import logging

from pandapipes.pf import pipeflow_setup as ps

logging.disable(logging.CRITICAL)


class _Net(dict):
    def __getattr__(self, name):
        try:
            return self[name]
        except KeyError:
            raise AttributeError(name)


def _mode(i):
    return ("hydraulics" if i == 0 else "heat" if i == 1 else "sequential" if i == 2 else
            "bidirectional" if i == 3 else "all")


class _Fluid:
    name = "water"
    is_gas = False


ps.get_fluid = lambda net: net["fluid"]      # stub: the fluid lookup is not the subject
DEFAULTS = copy.deepcopy(ps.default_options)
PLAIN_KEYS = [k for k in sorted(DEFAULTS) if k not in (
    "max_iter_hyd", "max_iter_therm", "max_iter_bidirect", "only_update_hydraulic_matrix", "reuse_internal_data",
    "mode", "use_numba")]
MODES = ["hydraulics", "heat", "sequential", "bidirectional", "all"]


def _net(user):
    return {"fluid": _Fluid(), "user_pf_options": user}


def _iter_layer(ip, i, hp, h, tp, t, bp, b):
    d = {}
    if ip:
        d["iter"] = i
    if hp:
        d["max_iter_hyd"] = h
    if tp:
        d["max_iter_therm"] = t
    if bp:
        d["max_iter_bidirect"] = b
    return d


def _expect_iter(kp, k, kip, ki, up, u, uip, ui):
    return k if kp else ki if kip else u if up else ui if uip else 10


def iter_precedence(uip: bool, ui: int, uhp: bool, uh: int, utp: bool, ut: int, ubp: bool, ub: int,
                    kip: bool, ki: int, khp: bool, kh: int, ktp: bool, kt: int, kbp: bool, kb: int) -> bool:
    """
    post: __return__
    """
    user = _iter_layer(uip, ui, uhp, uh, utp, ut, ubp, ub)
    user0 = copy.deepcopy(user)
    net = _net(user)
    ps.init_options(net, **_iter_layer(kip, ki, khp, kh, ktp, kt, kbp, kb))
    o = net["_options"]
    return (o["max_iter_hyd"] == _expect_iter(khp, kh, kip, ki, uhp, uh, uip, ui)
            and o["max_iter_therm"] == _expect_iter(ktp, kt, kip, ki, utp, ut, uip, ui)
            and o["max_iter_bidirect"] == _expect_iter(kbp, kb, kip, ki, ubp, ub, uip, ui)
            and user == user0 and ps.default_options == DEFAULTS)


def plain_key_precedence(key_idx: int, up: bool, u: int, kp: bool, k: int, xp: bool, x: int) -> bool:
    """
    pre: 0 <= key_idx < len(PLAIN_KEYS)
    post: __return__
    """
    key = PLAIN_KEYS[key_idx]
    user = {key: u} if up else {}
    if xp:
        user["some_unknown_option"] = x
    user0 = copy.deepcopy(user)
    net = _net(user)
    kw = {key: k} if kp else {}
    ps.init_options(net, **kw)
    o = net["_options"]
    expected = k if kp else u if up else DEFAULTS[key]
    others_ok = all(o[q] == DEFAULTS[q] for q in PLAIN_KEYS if q != key)
    unknown_ok = (o.get("some_unknown_option") == x) if xp else ("some_unknown_option" not in o)
    return (o[key] == expected and others_ok and unknown_ok and user == user0
            and ps.default_options == DEFAULTS)


def update_reuse_coupling(uup: bool, uu: bool, urp: bool, ur: bool, kup: bool, ku: bool, krp: bool, kr: bool) -> bool:
    """
    post: __return__
    """
    user = {}
    if uup:
        user["only_update_hydraulic_matrix"] = uu
    if urp:
        user["reuse_internal_data"] = ur
    kw = {}
    if kup:
        kw["only_update_hydraulic_matrix"] = ku
    if krp:
        kw["reuse_internal_data"] = kr
    user0 = copy.deepcopy(user)
    net = _net(user)
    ps.init_options(net, **kw)
    o = net["_options"]
    upd = ku if kup else uu if uup else False
    reuse = kr if krp else ur if urp else False
    return (o["only_update_hydraulic_matrix"] == upd and o["reuse_internal_data"] == (reuse and upd)
            and user == user0 and ps.default_options == DEFAULTS)


def mode_alias(ump: bool, um: int, kmp: bool, km: int) -> bool:
    """
    pre: 0 <= um < 5 and 0 <= km < 5
    post: __return__
    """
    user = {"mode": _mode(um)} if ump else {}
    kw = {"mode": _mode(km)} if kmp else {}
    user0 = copy.deepcopy(user)
    net = _net(user)
    ps.init_options(net, **kw)
    m = _mode(km) if kmp else _mode(um) if ump else "hydraulics"
    if m == "all":
        m = "sequential"
    return net["_options"]["mode"] == m and user == user0 and ps.default_options == DEFAULTS


def numba_fallback(unp: bool, un: bool, knp: bool, kn: bool) -> bool:
    """
    post: __return__
    """
    user = {"use_numba": un} if unp else {}
    kw = {"use_numba": kn} if knp else {}
    net = _net(user)
    ps.init_options(net, **kw)
    want = kn if knp else un if unp else True
    return net["_options"]["use_numba"] == (want and ps.numba_installed)


def set_user_options_then_call(sp: bool, s: int, s2p: bool, s2: int, reset: bool, kp: bool, k: int) -> bool:
    """
    post: __return__
    """
    # set_user_pf_options twice (second call optionally with reset), then a call-level value
    net = _Net({"fluid": _Fluid()})
    if sp:
        ps.set_user_pf_options(net, tol_p=s)
    kw2 = {"tol_p": s2} if s2p else {}
    ps.set_user_pf_options(net, reset=reset, **kw2)
    kw = {"tol_p": k} if kp else {}
    ps.init_options(net, **kw)
    stored = s2 if s2p else (s if (sp and not reset) else None)
    expected = k if kp else stored if stored is not None else DEFAULTS["tol_p"]
    return net["_options"]["tol_p"] == expected and ps.default_options == DEFAULTS


FUNCTIONS = ["iter_precedence", "plain_key_precedence", "update_reuse_coupling", "mode_alias", "numba_fallback",
             "set_user_options_then_call"]


# ---- the resolved stage limits are the ones in force --------------------------------------------------------
import importlib as _importlib

import numpy as _np

_pf = _importlib.import_module("pandapipes.pipeflow")


class _ANet(dict):
    """attribute + item access like pandapipesNet (only what the stage functions touch)"""
    def __getattr__(self, name):
        try:
            return self[name]
        except KeyError:
            raise AttributeError(name)

    def __setattr__(self, name, value):
        self[name] = value


def _never_converging(n_pairs, calls):
    def solve(net):
        calls.append(1)
        res = []
        for _ in range(n_pairs):
            res += [_np.array([1.0, 2.0]), _np.array([0.0, 0.0])]       # change 2 >> tolerance
        return res, _np.array([5.0, 5.0]), [None] * n_pairs
    return solve


def stage_limit_in_force(stage: int, hi: int, ti: int, bi: int) -> bool:
    """
    pre: 0 <= stage <= 2
    pre: 1 <= hi <= 3 and 1 <= ti <= 3 and 1 <= bi <= 3
    post: __return__
    """
    # the real hydraulics / heat_transfer / bidirectional with the real newton_raphson and finalize_iteration; the
    # per-iteration solve never converges, so the number of solves is the iteration limit that is in force
    calls = []
    saved = {n: getattr(_pf, n) for n in ("reduce_pit", "identify_active_nodes_branches", "solve_hydraulics",
                                          "solve_temperature", "solve_bidirectional")}
    net = _ANet()
    net["_options"] = dict(DEFAULTS, max_iter_hyd=hi, max_iter_therm=ti, max_iter_bidirect=bi, nonlinear_method="constant",
                           alpha=1.0)
    net["user_pf_options"] = {}
    net["fluid"] = _Fluid()
    net["converged"] = False
    try:
        _pf.reduce_pit = lambda *a, **k: None
        _pf.identify_active_nodes_branches = lambda *a, **k: None
        _pf.solve_hydraulics = _never_converging(3, calls)
        _pf.solve_temperature = _never_converging(2, calls)
        _pf.solve_bidirectional = _never_converging(5, calls)
        try:
            (_pf.hydraulics if stage == 0 else _pf.heat_transfer if stage == 1 else _pf.bidirectional)(net)
            raised = False
        except ps.PipeflowNotConverged:
            raised = True
    finally:
        for n, f in saved.items():
            setattr(_pf, n, f)
    expected = hi if stage == 0 else ti if stage == 1 else bi
    return raised and len(calls) == expected and not net["converged"]


# ---- the resolved Colebrook options are the ones handed to the Colebrook solver --------------------------------
_dc = _importlib.import_module("pandapipes.pf.derivative_calculation")


def colebrook_options_in_force(up: bool, u_mi: int, u_tol: int, kp: bool, k_mi: int, k_tol: int) -> bool:
    """
    pre: 1 <= u_mi <= 50 and 1 <= k_mi <= 50 and 1 <= u_tol <= 50 and 1 <= k_tol <= 50
    post: __return__
    """
    # real init_options (layers) + real calc_lambda; colebrook_white is replaced by a recorder: the iteration limit and the
    # tolerance it receives are the resolved options (tolerances are carried as integers: they are only passed through)
    user = {"max_iter_colebrook": u_mi, "tolerance_colebrook": u_tol} if up else {}
    net = _net(user)
    kw = {"max_iter_colebrook": k_mi, "tolerance_colebrook": k_tol} if kp else {}
    ps.init_options(net, friction_model="colebrook", use_numba=False, **kw)
    o = net["_options"]
    got = []
    saved = _dc.colebrook_white

    def recorder(re, d, k, lambda_nikuradse, max_iter, lengths, tolerance):
        got.append((max_iter, tolerance))
        return True, lambda_nikuradse
    try:
        _dc.colebrook_white = recorder
        m = _np.array([0.5, 1.0])
        _dc.calc_lambda(m, _np.array([1e-3, 1e-3]), _np.array([0.1, 0.1]), _np.array([1e-4, 1e-4]), False, o["friction_model"],
                        _np.array([100.0, 50.0]), o, _np.array([0.00785, 0.00785]))
    finally:
        _dc.colebrook_white = saved
    exp_mi = k_mi if kp else u_mi if up else DEFAULTS["max_iter_colebrook"]
    exp_tol = k_tol if kp else u_tol if up else DEFAULTS["tolerance_colebrook"]
    return len(got) == 1 and got[0] == (exp_mi, exp_tol)
