"""entry point: run_check.py <property id> [--tier quick|thorough] [--replay file]"""
import importlib
import os
import sys

HERE = os.path.dirname(os.path.abspath(__file__))
sys.path.insert(0, HERE)
os.environ.setdefault("NUMBA_CACHE_DIR", "/tmp/verif_numba_cache")
for _v in ("OMP_NUM_THREADS", "OPENBLAS_NUM_THREADS", "MKL_NUM_THREADS", "NUMEXPR_NUM_THREADS"):
    os.environ.setdefault(_v, "1")


if "--replay" not in sys.argv:
    # symbolic workers execute the numba kernels from their Python source; skip compilation
    os.environ.setdefault("NUMBA_DISABLE_JIT", "1")


def main():
    import logging
    import warnings
    logging.disable(logging.CRITICAL)
    warnings.filterwarnings("ignore")
    if len(sys.argv) < 2:
        print("usage: run_check.py <Cxx> [--tier quick|thorough] [--replay file]")
        return 2
    pid = sys.argv[1].upper()
    mod = importlib.import_module("checks.%s" % pid.lower())
    try:
        return mod.main(sys.argv[2:])
    except Exception:
        import traceback
        traceback.print_exc()
        return 2        # a crash of the machinery is a harness error, never a violation


if __name__ == "__main__":
    sys.exit(main())
